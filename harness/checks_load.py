"""Registered checks C10, C11."""
from . import load_checks as LC

QUICK = {"Ps": "{2, 3}", "Qs": "{1, 2, 3}", "MaxRa": "2", "NRs": "{3, 5}", "MaxZa": "2", "NZs": "{4, 6}", "Emit": "TRUE"}
THOROUGH = {"Ps": "{2, 3, 6}", "Qs": "{1, 2, 3, 6}", "MaxRa": "2", "NRs": "{3, 5, 7}", "MaxZa": "3",
            "NZs": "{3, 5, 7}", "Emit": "TRUE"}


def c10(chk, tier):
    chk.cov["rule"] = (
        "A: TLC enumerates every input triple of MCLoad.tla (rain step P, level step Q, offsets, row counts, "
        "up to two blocks of missing level rows, a missing rain / ET row) and emits the expected tables; each "
        "acceptable configuration is written as three text files with shuffled rows and loaded by the real "
        "code (API and CLI entry point), tables compared exactly (levels as exact rationals within 1e-9). "
        "B: the field datasets' loads validated by TraceLoad.tla, one state per source row / grid instant. "
        "non-trivial = >= 2 distinct labels (a gap) ")
    LC.replay_loads(chk, "MCLoad", QUICK if tier == "quick" else THOROUGH, want_refusals=False)
    LC.field_loads(chk, tier)
    if tier != "quick":
        # the repository's own tests: what their `load` stored, judged by TraceLoad.tla
        from . import testtrace as TT
        TT.judge(chk, ("C10",), k_expr="test_load", parts=("load",))


def second_load_refused(chk, tier):
    """loading into a dataset that already holds data is refused and changes nothing"""
    import os, random
    from . import present as P
    from .common import workdir, rm, seed
    rng = random.Random(seed() + 5)
    wd = workdir("second")
    try:
        for trial in range(6 if tier == "quick" else 40):
            n = rng.randint(4, 12)
            e0 = P.epoch_of(2014, 1, 1) + 1800 * rng.randint(0, 1000)
            mk = lambda off, k, scale: [(e0 + (off + i) * 1800, scale * ((i * 7) % 5)) for i in range(k)]
            f1 = P.Files(wd, mk(0, n + 2, 1.0), mk(-1, n + 5, 0.125), mk(1, n - 1, 3.0), "UTC", tag="a%d" % trial)
            f2 = P.Files(wd, mk(3, n + 2, 2.0), mk(2, n + 5, 0.25), mk(4, n - 1, 5.0), "UTC", tag="b%d" % trial)
            db = os.path.join(wd, "d%d.sqlite3" % trial)
            o = P.cli(f1.load_argv(db))
            if not o.ok:
                chk.violation("first load failed: " + o.describe(), {"kind": "second_load", "trial": trial})
                continue
            before = P.logical_dump(db)
            # also after later steps the dataset still refuses a load
            if trial % 2:
                P.cli(["classify", db, "-s", "1.5", "-j", "2.0"])
                before = P.logical_dump(db)
            o = P.cli((f2 if trial % 3 else f1).load_argv(db))
            after = P.logical_dump(db)
            chk.count("evaluations"); chk.count("traces_validated_against_impl"); chk.count("distinct_nontrivial")
            if o.ok or not isinstance(o.exc, ValueError) or "already populated" not in str(o.exc):
                chk.violation("a second load into a populated dataset was not refused: " + o.describe(),
                              {"kind": "second_load", "trial": trial, "outcome": o.describe()})
            elif before != after:
                chk.violation("a refused second load changed the dataset", {"kind": "second_load", "trial": trial})
    finally:
        rm(wd)


def c11(chk, tier):
    from . import tz_checks as TZ
    from . import tlc
    chk.cov["rule"] = (
        "timestamps: TLC (TimeZone.tla) first checks the oracle on all abstract zones (<= 2 transitions): zero "
        "valid instants only inside a forward jump, two only inside a backward jump, complete; then, from zone "
        "tables parsed out of pytz's own TZif files by an independent parser and handed over as literal "
        "constants, computes ValidInstants for probe local times at +-{0,1 s,59 s,1 min,1 h} on both local sides "
        "of transitions and at seeded plain instants (1902-2037); the epoch stored by the real "
        "generate_timestamped_rows must be a member. Judged only where every candidate era has a whole-minute "
        "offset in the file (pytz rounds offsets to minutes). refusals: every MCLoad configuration the "
        "specification refuses (non-uniform rain, missing ET at each position) must raise the matching "
        "ValueError; a second load must be refused and leave the logical dump unchanged. "
        "non-trivial = probe next to a transition / refused configuration")
    q = tier == "quick"
    cfg = tlc.cfg_text({"TMax": "16" if q else "24", "NT": "2", "MaxJump": "2"}, spec="Spec",
                       invariants=["AtMostTwo", "NoneOnlyInGap", "TwoOnlyInFold", "AllRenderBack", "Complete"])
    res = tlc.run("MCTimeZone", cfg, workers=8, invariants=["AtMostTwo", "NoneOnlyInGap", "TwoOnlyInFold",
                                                             "AllRenderBack", "Complete"])
    chk.add_tlc(res, "MCTimeZone abstract zones")
    if res.get("violated"):
        chk.violation("TimeZone.tla: oracle unsound on abstract zones: " + res["error"][:500], {"kind": "tlc"})
    TZ.tz_check(chk, tier)
    LC.replay_loads(chk, "MCLoad refusals", QUICK if q else THOROUGH, want_refusals=True)
    second_load_refused(chk, tier)


def dispatch_replay(chk, rp):
    if rp.get("kind") == "tz":
        from . import tz_checks as TZ
        return TZ.replay_file(chk, rp)
    if rp.get("kind") == "testtrace":
        from . import testtrace as TT
        return TT.replay_file(chk, rp)
    if rp.get("kind") == "load_config":
        LC.replay_file(chk, rp)
    else:
        raise SystemExit("cannot replay kind %r; re-run the check" % rp.get("kind"))


REGISTRY = {
    "C10": {"run": c10, "replay": dispatch_replay},
    "C11": {"run": c11, "replay": dispatch_replay},
}
