"""Registered checks C10, C11."""
from . import load_checks as LC

QUICK = {"Ps": "{2, 3}", "Qs": "{1, 2, 3}", "MaxRa": "2", "NRs": "{3, 5}", "MaxZa": "2", "NZs": "{4, 6}", "Emit": "TRUE"}
THOROUGH = {"Ps": "{2, 3, 6}", "Qs": "{1, 2, 3, 6}", "MaxRa": "3", "NRs": "{3, 5, 7}", "MaxZa": "4",
            "NZs": "{3, 5, 7, 9}", "Emit": "TRUE"}


def c10(chk, tier):
    chk.cov["rule"] = (
        "A: TLC enumerates every input triple of MCLoad.tla (rain step P, level step Q, offsets, row counts, "
        "up to two blocks of missing level rows, a missing rain / ET row) and emits the expected tables; each "
        "acceptable configuration is written as three text files with shuffled rows and loaded by the real "
        "code (API and CLI entry point), tables compared exactly (levels as exact rationals within 1e-9). "
        "B: the field datasets' loads validated by TraceLoad.tla, one state per source row / grid instant. "
        "non-trivial = >= 2 distinct labels (a gap) ")
    LC.replay_loads(chk, "MCLoad", QUICK if tier == "quick" else THOROUGH, want_refusals=False)
    LC.field_loads(chk, tier)


def dispatch_replay(chk, rp):
    if rp.get("kind") == "load_config":
        LC.replay_file(chk, rp)
    else:
        raise SystemExit("cannot replay kind %r; re-run the check" % rp.get("kind"))


REGISTRY = {
    "C10": {"run": c10, "replay": dispatch_replay},
}
