"""Running TLAPS proofs (tlapm) from a check: the proof modules are copied to a scratch directory, every
obligation must be discharged; the count goes into the evidence.  A proof that does not go through is a
machinery failure (the proofs are about the specification, not about the code)."""
import os
import re
import shutil
import subprocess

from .common import MachineryError, VERIF, workdir, rm


def prove(chk, files, modules):
    """files: spec files to copy; modules: [(module file, what it proves)]"""
    wd = workdir("tlaps")
    total = 0
    try:
        for f in files:
            shutil.copy(os.path.join(VERIF, "spec", f), wd)
        for mod, what in modules:
            p = subprocess.run(["tlapm", "--threads", "4", mod], cwd=wd, capture_output=True, text=True, timeout=2400)
            out = p.stdout + p.stderr
            m = re.search(r"All (\d+) obligations? proved", out)
            if not m:
                f = re.search(r"(\d+)/(\d+) obligations failed", out)
                raise MachineryError("TLAPS proof %s did not go through: %s" % (mod, f.group(0) if f else out[-600:]))
            total += int(m.group(1))
            chk.notes.append("TLAPS: %s (%s obligations, %s)" % (what, m.group(1), mod))
    except FileNotFoundError:
        chk.notes.append("tlapm not available: TLAPS proofs skipped (no verdict depends on them)")
        return 0
    finally:
        rm(wd)
    chk.cov["tlaps_obligations"] = chk.cov.get("tlaps_obligations", 0) + total
    chk.cov["tlaps_discharged"] = chk.cov.get("tlaps_discharged", 0) + total
    return total
