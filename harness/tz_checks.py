"""C11 (timestamps): zone tables parsed from pytz's own TZif files are handed
to TLC as literal constants; TLC computes, for probe local times around
transitions, the set of valid UTC instants (TimeZone.tla); the real
load.generate_timestamped_rows must store a member of that set."""
import datetime
import json
import os
import random
import struct

from . import tlc
from .common import MachineryError, seed, import_repo

import_repo()
LIM = 2**31 - 400000


def pytz_dir():
    import pytz
    return os.path.join(os.path.dirname(pytz.__file__), "zoneinfo")


def all_zone_names():
    import pytz
    return sorted(pytz.all_timezones)


def parse_tzif_v1(path):
    """(transitions [(utc, type_index)], ttinfo [(utoff, isdst, abbr_index)]) from the 32-bit block"""
    with open(path, "rb") as f:
        data = f.read()
    if data[:4] != b"TZif":
        raise ValueError("not TZif: " + path)
    isutcnt, isstdcnt, leapcnt, timecnt, typecnt, charcnt = struct.unpack(">6l", data[20:44])
    p = 44
    times = struct.unpack(">%dl" % timecnt, data[p:p + 4 * timecnt]); p += 4 * timecnt
    idx = struct.unpack(">%dB" % timecnt, data[p:p + timecnt]); p += timecnt
    tt = []
    for i in range(typecnt):
        utoff, isdst, ab = struct.unpack(">lBB", data[p:p + 6]); p += 6
        tt.append((utoff, isdst, ab))
    return list(zip(times, idx)), tt


def zone_table(name):
    """the zone as pytz declares it: offsets rounded to whole minutes; `exact`
    says whether the file's own offset was a whole minute"""
    trans, tt = parse_tzif_v1(os.path.join(pytz_dir(), name))
    rnd = lambda o: ((o + 30) // 60) * 60
    if not trans:
        return {"name": name, "init": rnd(tt[0][0]), "init_exact": tt[0][0] % 60 == 0, "tr": []}
    i = 0
    while i < len(tt) and tt[i][1]:
        i += 1
    if i == len(tt):
        i = 0
    tr = []
    for t, k in trans:
        if tr and tr[-1][0] >= t:
            continue
        tr.append((t, rnd(tt[k][0]), tt[k][0] % 60 == 0))
    init = rnd(tt[i][0])
    while tr and abs(tr[0][0]) >= 2**31 - 2:      # TLC integers are 32 bit
        init = tr[0][1]
        tr.pop(0)
    return {"name": name, "init": init, "init_exact": False, "tr": tr}


QUICK_ZONES = ["UTC", "Etc/GMT+5", "Etc/GMT-7", "Africa/Lagos", "Asia/Kolkata", "Asia/Kathmandu",
               "Australia/Adelaide", "Australia/Lord_Howe", "America/New_York", "America/Sao_Paulo",
               "Europe/London", "Europe/Amsterdam", "Europe/Moscow", "America/Caracas", "Pacific/Apia",
               "Pacific/Kiritimati", "Africa/Monrovia", "Asia/Tehran", "America/St_Johns", "Asia/Pyongyang",
               "Africa/Casablanca", "Antarctica/Troll", "Asia/Jakarta", "America/Santiago"]

DELTAS = [-3600, -60, -1, 0, 1, 59, 3600]


def tla_zone(z):
    tr = ", ".join("<<%d, %d>>" % (t, o) for t, o, _ in z["tr"])
    ex = ", ".join("TRUE" if e else "FALSE" for _, _, e in z["tr"])
    return '[name |-> "%s", init |-> %d, initExact |-> %s, tr |-> <<%s>>, exact |-> <<%s>>]' % (
        z["name"], z["init"], "TRUE" if z["init_exact"] else "FALSE", tr, ex)


def wrapper(zones, probes, plain, series=()):
    """module text: Zones, Probes (zone idx, transition idx), Plain (zone idx, utc instant)"""
    zs = ",\n  ".join(tla_zone(z) for z in zones)
    ps = ", ".join("<<%d, %d>>" % p for p in probes) or ""
    pl = ", ".join("<<%d, %d>>" % p for p in plain) or ""
    sr = ", ".join("<<%d, %d>>" % p for p in series) or ""
    ds = ", ".join(str(d) for d in DELTAS)
    return """---- MODULE MCTZReal ----
EXTENDS TimeZone, TLC, Json
ZonesT == <<
  %s
>>
Probes == <<%s>>
Plain == <<%s>>
Series == <<%s>>
Deltas == {%s}
VARIABLES zi, local, kind
vars == <<zi, local, kind>>
Z == [init |-> ZonesT[zi].init, tr |-> ZonesT[zi].tr]
Init ==
    \\/ \\E p \\in 1..Len(Probes), d \\in Deltas, side \\in {0, 1} :
          LET zz == ZonesT[Probes[p][1]]
              k == Probes[p][2]
              t == zz.tr[k][1]
              old == zz.tr[k - 1][2]
              new == zz.tr[k][2]
          IN  /\\ zi = Probes[p][1]
              /\\ local = t + (IF side = 0 THEN old ELSE new) + d
              /\\ kind = "transition"
    \\/ \\E p \\in 1..Len(Plain) :
          /\\ zi = Plain[p][1]
          /\\ local = Plain[p][2]
          /\\ kind = "plain"
    \\/ \\E p \\in 1..Len(Series) :
          /\\ zi = Series[p][1]
          /\\ local = ZonesT[zi].tr[Series[p][2]][1]      \\* the UTC instant of the transition
          /\\ kind = "series"
Next == UNCHANGED vars
Spec == Init /\\ [][Next]_vars
(* era 0 (before the first transition) is judged only for a zone that has no transition at all and whose single
   offset is a whole minute in the zone file (Etc/GMT+5, UTC ...): pytz then uses exactly that offset *)
Judged == \\A k \\in ErasOf(Z, local) :
            IF k = 0 THEN Len(ZonesT[zi].tr) = 0 /\\ ZonesT[zi].initExact
            ELSE k >= 2 /\\ ZonesT[zi].exact[k]
AtMostTwo == Cardinality(ValidInstants(Z, local)) <= 2
(* a uniform half-hourly UTC series across the transition, rendered in the zone *)
SeriesOf(t) == [i \\in 1..24 |-> <<t - 21600 + i * 1800, Render(Z, t - 21600 + i * 1800)>>]
EmitInv ==
    IF kind = "series"
    THEN PrintT("EMIT " \\o ToJson([zone |-> ZonesT[zi].name, kind |-> kind, series |-> SeriesOf(local)]))
    ELSE PrintT("EMIT " \\o ToJson([zone |-> ZonesT[zi].name, local |-> local, kind |-> kind,
                                      valid |-> ValidInstants(Z, local), judged |-> Judged]))
====
""" % (zs, ps, pl, sr, ds)


def local_text(local):
    return (datetime.datetime(1970, 1, 1) + datetime.timedelta(seconds=local)).strftime("%Y-%m-%d %H:%M:%S")


def stored_epoch(zone_name, text):
    import pytz
    import spowtd.load as load_mod
    rows = list(load_mod.generate_timestamped_rows([[text, "1.0"]], pytz.timezone(zone_name)))
    return rows[0][0]


def stored_epochs(zone_name, texts):
    """ONE call for a whole file of rows, as load does"""
    import pytz
    import spowtd.load as load_mod
    rows = list(load_mod.generate_timestamped_rows([[t, "1.0"] for t in texts], pytz.timezone(zone_name)))
    return [r[0] for r in rows]


def load_by_name(chk, z, objs):
    """the zone NAME goes through `load_data` itself (which resolves it), on a six-instant hourly dataset around a
    judged plain probe with no transition of the zone within two days: the stored instants must be the probe's
    single valid instant plus whole hours.  Zones without any transition (Etc/GMT+5 ...) get no `cli_series`;
    this is where their name resolution is bound to the specification's zone table."""
    import io
    import sqlite3
    import spowtd.load as load_mod
    cands = [o for o in objs if o["kind"] != "series" and o["judged"] and len(o["valid"]) == 1
             and all(abs(t[0] - o["valid"][0]) > 172800 for t in z["tr"])]
    for o in cands[:2]:
        v, loc = o["valid"][0], o["local"]
        inst = [(v + 3600 * i, loc + 3600 * i) for i in range(6)]
        text = lambda rows: "datetime,value\n" + "".join("%s,%s\n" % (local_text(l), float(i % 3)) for i, (e, l) in enumerate(rows))
        conn = sqlite3.connect(":memory:")
        rp = {"kind": "tz_by_name", "zone": z["name"], "local": loc, "valid": o["valid"]}
        chk.count("evaluations")
        try:
            try:
                load_mod.load_data(connection=conn, precipitation_data_file=io.StringIO(text(inst[:-1])),
                                   evapotranspiration_data_file=io.StringIO(text(inst)),
                                   water_level_data_file=io.StringIO(text(inst[1:-2])), time_zone_name=z["name"])
            except Exception as e:  # noqa
                chk.violation("load of six hourly instants from %s declared in %s (no transition within two days) "
                              "failed: %r" % (local_text(loc), z["name"], e), rp)
                continue
            for table, rows in (("rainfall_intensity_staging", inst[:-1]), ("evapotranspiration_staging", inst),
                                ("water_level_staging", inst[1:-2])):
                got = [r[0] for r in conn.execute("SELECT epoch FROM %s ORDER BY epoch" % table)]
                if got != [e for e, _ in rows]:
                    bad = [(local_text(l), e, g) for (e, l), g in zip(rows, got) if e != g][:3]
                    chk.violation("%s loaded with --timezone %s: stored instants differ from the instants that render "
                                  "to the texts in that zone (text, expected, stored): %s" % (table, z["name"], bad), rp)
                    break
            else:
                chk.count("traces_validated_against_impl")
                chk.count("zones_loaded_by_name")
        finally:
            conn.close()


def cli_series(chk, obj, wd):
    """a tiny dataset whose rainfall / ET begin before a forward transition and whose
    water level begins after it, loaded through the CLI entry point"""
    import os
    import sqlite3
    from . import present as P
    ser = obj["series"]
    zone = obj["zone"]
    tag = "tz%d" % abs(hash(zone + str(ser[0][0])) % 10**8)
    paths = {}
    for key, rows in (("p", ser[:-1]), ("e", ser), ("z", ser[14:-2])):
        path = os.path.join(wd, "%s_%s.txt" % (tag, key))
        with open(path, "w") as f:
            f.write("datetime,value\n")
            for i, (e, loc) in enumerate(rows):
                f.write("%s,%s\n" % (local_text(loc), float(i % 5)))
        paths[key] = path
    db = os.path.join(wd, tag + ".sqlite3")
    o = P.cli(["load", db, "-p", paths["p"], "-e", paths["e"], "-z", paths["z"], "--timezone", zone])
    chk.count("evaluations")
    rp = {"kind": "tz_series", "zone": zone, "series": ser}
    if not o.ok:
        chk.violation("load of a uniform half-hourly series across a transition of %s failed: %s" % (zone, o.describe()), rp)
        return
    conn = sqlite3.connect(db)
    try:
        for table, rows in (("rainfall_intensity_staging", ser[:-1]), ("evapotranspiration_staging", ser),
                            ("water_level_staging", ser[14:-2])):
            got = [r[0] for r in conn.execute("SELECT epoch FROM %s ORDER BY epoch" % table)]
            if got != [e for e, _ in rows]:
                bad = [(local_text(l), e, g) for (e, l), g in zip(rows, got) if e != g][:3]
                chk.violation("%s read in %s: stored instants differ from the instants that render to the "
                              "texts (text, expected, stored): %s" % (table, zone, bad), rp)
                return
    finally:
        conn.close()
        for p in list(paths.values()) + [db]:
            if os.path.exists(p):
                os.unlink(p)
    chk.count("traces_validated_against_impl")
    chk.count("cli_series_loaded")


def run_batch(chk, zones, n_trans, n_plain, rng, label, n_series=2):
    probes, plain = [], []
    for zi, z in enumerate(zones, 1):
        ks = [k for k in range(3, len(z["tr"]) + 1)
              if abs(z["tr"][k - 1][0]) < LIM and z["tr"][k - 1][0] - z["tr"][k - 2][0] > 8000]
        rng.shuffle(ks)
        for k in ks[:n_trans]:
            probes.append((zi, k))
        lo = z["tr"][1][0] + 90000 if len(z["tr"]) >= 2 else -LIM
        lo = max(lo, -LIM)
        for _ in range(n_plain):
            e = rng.randrange(lo, LIM)
            plain.append((zi, e))          # used as a LOCAL time
    series = []
    for zi, z in enumerate(zones, 1):
        # forward jumps (no repeated local times) between whole-minute offsets
        ks = [k for k in range(3, len(z["tr"]) + 1)
              if abs(z["tr"][k - 1][0]) < LIM and z["tr"][k - 1][1] > z["tr"][k - 2][1]
              and z["tr"][k - 1][2] and z["tr"][k - 2][2]
              and z["tr"][k - 1][0] - z["tr"][k - 2][0] > 40000
              and (k == len(z["tr"]) or z["tr"][k][0] - z["tr"][k - 1][0] > 40000)]
        rng.shuffle(ks)
        series += [(zi, k) for k in ks[:n_series]]
    res = tlc.run("MCTZReal", "SPECIFICATION Spec\nINVARIANT AtMostTwo\nINVARIANT EmitInv\nCHECK_DEADLOCK FALSE\n",
                  workers=8, wrapper=("MCTZReal", wrapper(zones, probes, plain, series)), timeout=3000,
                  invariants=["AtMostTwo"])
    chk.add_tlc(res, label)
    if res.get("violated"):
        chk.violation("TLC: more than two valid instants for a local time: " + res["error"][:500],
                      {"kind": "tlc", "error": res["error"][:3000]})
        return
    from .common import workdir, rm
    wd = workdir("tz")
    try:
        for obj in res["emits"]:
            if obj["kind"] == "series":
                cli_series(chk, obj, wd)
    finally:
        rm(wd)
    for z in zones:
        load_by_name(chk, z, [o for o in res["emits"] if o["zone"] == z["name"]])
    # whole-file conversion: all probes of a zone in ONE call, in shuffled order
    by_zone = {}
    for obj in res["emits"]:
        if obj["kind"] != "series" and obj["valid"]:
            by_zone.setdefault(obj["zone"], []).append(obj)
    file_epoch = {}
    for zone, objs in by_zone.items():
        rng.shuffle(objs)
        try:
            eps = stored_epochs(zone, [local_text(o["local"]) for o in objs])
        except Exception as e:  # noqa
            chk.violation("timestamp conversion of a %d-row file raised for %s: %r" % (len(objs), zone, e),
                          {"kind": "tz_file", "zone": zone})
            continue
        for o, ep in zip(objs, eps):
            file_epoch[(zone, o["local"])] = ep
    for obj in res["emits"]:
        if obj["kind"] == "series":
            continue
        chk.count("evaluations")
        if not obj["valid"]:
            chk.count("nonexistent_local_times_skipped")
            continue
        text = local_text(obj["local"])
        try:
            ep = stored_epoch(obj["zone"], text)
        except Exception as e:  # noqa
            chk.violation("timestamp conversion raised for %s %s: %r" % (obj["zone"], text, e),
                          {"kind": "tz", "zone": obj["zone"], "text": text, "valid": obj["valid"]})
            continue
        ep2 = file_epoch.get((obj["zone"], obj["local"]), ep)
        if ep2 != ep and obj["judged"]:
            chk.violation("%s in %s is stored as %d when converted alone but as %d inside a file of rows; valid: %s" % (
                text, obj["zone"], ep, ep2, obj["valid"]),
                {"kind": "tz_file", "zone": obj["zone"], "text": text, "valid": obj["valid"], "alone": ep, "in_file": ep2})
            continue
        chk.count("traces_validated_against_impl")
        ok = ep in obj["valid"]
        if not obj["judged"]:
            chk.count("not_judged_subminute_or_initial_era")
            if not ok:
                chk.count("not_judged_and_differs")
            continue
        if obj["kind"] == "transition":
            chk.count("distinct_nontrivial")
            if len(obj["valid"]) == 2:
                chk.count("fold_cases")
        chk.sample({"zone": obj["zone"], "local": text, "spec_valid_instants": obj["valid"], "stored": ep})
        if not ok:
            chk.violation("%s read as %s is stored as %d; the instants that render back to that text are %s" % (
                text, obj["zone"], ep, obj["valid"]),
                {"kind": "tz", "zone": obj["zone"], "text": text, "valid": obj["valid"], "stored": ep})


def tz_check(chk, tier):
    rng = random.Random(seed() + 11)
    if tier == "quick":
        zones = [zone_table(n) for n in QUICK_ZONES]
        run_batch(chk, zones, 40, 20, rng, "MCTZReal 24 zones")
    else:
        names = all_zone_names()
        for i in range(0, len(names), 60):
            zones = [zone_table(n) for n in names[i:i + 60]]
            run_batch(chk, zones, 12, 8, rng, "MCTZReal zones %d..%d" % (i, i + len(zones)))


def replay_file(chk, rp):
    if rp.get("kind") == "tz_by_name":
        z = zone_table(rp["zone"])
        load_by_name(chk, z, [{"kind": "plain", "judged": True, "valid": rp["valid"], "local": rp["local"]}])
        chk.count("distinct_nontrivial", 2)
        chk.sample(rp)
        return
    ep = stored_epoch(rp["zone"], rp["text"])
    print("replay: stored", ep, "valid", rp["valid"])
    chk.count("evaluations"); chk.count("distinct_nontrivial", 2); chk.count("traces_validated_against_impl")
    chk.sample(rp)
    if ep not in rp["valid"]:
        chk.violation("replayed: stored %d not in %s" % (ep, rp["valid"]), rp)
