"""C09: reference levels.  TLC (RefLevel.tla) enumerates (step, k, fraction)
with the exact verdict; the harness types the reference as a decimal string
into `rise -r` / `recession -r` on lattice datasets."""
import json
import multiprocessing as mp
import os
import shutil
from decimal import Decimal
from fractions import Fraction

from . import tlc
from . import present as P
from . import hydro_checks as HY
from .workflow import Workflow
from .common import MachineryError, seed, workdir, rm


def dec_str(num, den):
    """exact decimal text of num/den (den has only factors 2 and 5)"""
    f = Fraction(num, den)
    d = Decimal(f.numerator) / Decimal(f.denominator)
    s = format(d, "f")
    if "." in s:
        s = s.rstrip("0").rstrip(".")
    return s if s not in ("-0", "") else "0"


def pick_behaviour(chk):
    behs = HY.behaviours(chk, "MCHydro simulate depth 16 TruthC (dataset for references)",
                         HY.hydro_consts("TruthC", 16, "{16}", start="{8, 9}", max_gap=1, force="TRUE"),
                         simulate="num=80", workers=1)
    best, score = None, -1
    for b in behs:
        if not (HY._ok(b, "recOK", 2) and HY._ok(b, "riseOK", 2)):
            continue
        sc = len(b["recPieces"]) + len(b["risePieces"])
        if sc > score:
            best, score = b, sc
    if best is None:
        raise MachineryError("no assemblable behaviour among the simulated ones")
    return best


def build_dataset(beh, step, base, wd, tag, half=0.5):
    sf = float(Fraction(step[0], step[1]))
    dt = 1800
    pres = P.Presentation(dt=dt, s_real=0.5, j_real=sf / 0.5, S=1, J=1, gap=1, gap_rain=0, zone="UTC")
    rec = []
    gaps = [e["n"] for e in beh["ev"] if e["type"] == "gap"]
    for k, st in enumerate(beh["rec"]):
        d = {"rain": st["rain"], "inc": st["inc"], "first": (beh["first"][k] + half + base) * sf}
        if k < len(gaps):
            d["gap_after"] = gaps[k]
        rec.append(d)
    rain_rows, et_rows, level_rows = pres.series(rec)
    wf = Workflow(wd, tag, rain_rows, et_rows, level_rows, "UTC")
    for o in (wf.load(), wf.run("classify", "-s", "0.5", "-j", repr(pres.j_real)),
              wf.run("set-zeta-grid", "-d", dec_str(step[0], step[1]))):
        if not o.ok:
            return wf, "preparing the dataset failed: " + o.describe()
    return wf, None


VIEW = {"rise": ("average_rising_depth", "mean_crossing_depth_mm"),
        "recession": ("average_recession_time", "elapsed_time_s")}


def curve(db, cmd, sf):
    import sqlite3
    conn = sqlite3.connect(db)
    try:
        view, col = VIEW[cmd]
        return {int(round(z / sf)): v for z, v in conn.execute("SELECT zeta_mm, %s FROM %s" % (col, view))}
    finally:
        conn.close()


def _worker(args):
    (step, base), cases, beh = args
    wd = workdir("ref")
    out = []
    sf = float(Fraction(step[0], step[1]))
    try:
        wf, err = build_dataset(beh, step, base, wd, "d")
        if err:
            return [((step, base), None, None, err)]
        ids = {}
        scale = {}
        for cmd in ("rise", "recession"):
            db2 = os.path.join(wd, "default.sqlite3")
            shutil.copy(wf.db, db2)
            o = P.cli([cmd, db2])
            if not o.ok:
                out.append(((step, base), cmd, None, "%s without a reference failed: %s" % (cmd, o.describe())))
                continue
            c = curve(db2, cmd, sf)
            ids[cmd] = set(c)
            scale[cmd] = max(1.0, max(abs(v) for v in c.values()))
            top = max(c)
            if abs(c[top]) > 1e-9 * scale[cmd]:
                out.append(((step, base), cmd, None, "without a reference the %s curve is %r at its highest level %d, not 0" % (cmd, c[top], top)))
            else:
                out.append(((step, base), cmd, "default", None))
        for case in cases:
            ref = dec_str(case["refNum"], case["refDen"])
            for cmd in ids:
                if case["k"] not in ids[cmd] or (not case["accept"] and case["k"] + 1 not in ids[cmd]):
                    continue        # references outside the curve are not judged
                db2 = os.path.join(wd, "case.sqlite3")
                shutil.copy(wf.db, db2)
                before = P.logical_dump(db2)
                o = P.cli([cmd, db2, "-r", ref])
                msg = None
                if case["accept"]:
                    if not o.ok:
                        msg = "`%s -r %s` (level %d of a %s mm grid) was refused: %s" % (cmd, ref, case["k"], dec_str(*step), o.describe())
                    else:
                        c = curve(db2, cmd, sf)
                        v = c.get(case["index"])
                        if v is None or abs(v) > 1e-9 * scale[cmd]:
                            nz = sorted(k for k, x in c.items() if abs(x) <= 1e-9 * scale[cmd])
                            msg = "`%s -r %s`: the master curve is %r at level %d (= the reference); it is zero at levels %s" % (
                                cmd, ref, v, case["index"], nz)
                else:
                    if o.ok:
                        msg = "`%s -r %s` is not a multiple of the %s mm step but was accepted" % (cmd, ref, dec_str(*step))
                    elif not isinstance(o.exc, ValueError):
                        msg = "`%s -r %s` off the grid failed with %s instead of a refusal" % (cmd, ref, o.describe())
                    elif P.logical_dump(db2) != before:
                        msg = "refused `%s -r %s` changed the dataset" % (cmd, ref)
                out.append(((step, base), cmd, case, msg))
        wf.cleanup()
    finally:
        rm(wd)
    return out


def c09(chk, tier):
    q = tier == "quick"
    chk.cov["rule"] = (
        "RefLevel.tla: TLC enumerates (grid step in {1, 0.5, 0.1, 0.2, 0.3, 2.5, 5} mm as exact rationals, level-id "
        "offset of the dataset, k, fraction in {0, 1/2, 1/4}) with the exact verdict (accept + index, or refuse); "
        "per (step, offset) a lattice dataset (a Hydro.tla behaviour with samples at (m + 1/2) step) is "
        "loaded, classified and gridded through the CLI; for every k inside the curve `rise -r REF` and "
        "`recession -r REF` are run with REF typed as the exact decimal string: accepted references must "
        "give a master curve that is zero at level k (1e-9 of the curve's scale), off-grid ones must be refused "
        "with the dataset unchanged; without -r the highest level is the origin. "
        "non-trivial = on-grid reference with a non-dyadic step")
    beh = pick_behaviour(chk)
    # a dataset offset that puts level id 0 (reference "0", "-0") in the middle of both curves
    mids = []
    for pieces, lo_i, hi_i in ((beh["risePieces"], 3, 4), (beh["recPieces"], 4, 3)):
        cnt = {}
        for p in pieces:
            for n in range(p[lo_i], p[hi_i]):
                cnt[n] = cnt.get(n, 0) + 1
        mids.append({n for n, c in cnt.items() if c >= 2})
    both = sorted(mids[0] & mids[1]) or sorted(mids[0] | mids[1]) or [0]
    zero_base = -both[len(both) // 2]
    bases = ("{0, -379, %d}" if q else "{0, -379, -50, 60, -1203, 411, 20000, %d}") % zero_base
    wrapper = ("MCRefLevelW", "---- MODULE MCRefLevelW ----\nEXTENDS MCRefLevel\nZeroBase == %s\n====\n" % bases)
    res = tlc.run("MCRefLevelW", tlc.cfg_text(
        {"Steps": "<- StepsQuick" if q else "<- StepsAll", "Bases": "<- ZeroBase",
         "KWindow": "<- Window", "Fracs": "<- FracsAll", "Emit": "TRUE"}, spec="Spec",
        invariants=["Inv_OnGridIffWhole", "Inv_Index", "EmitInv"]), workers=4, wrapper=wrapper,
        invariants=["Inv_OnGridIffWhole", "Inv_Index"])
    chk.add_tlc(res, "MCRefLevel")
    if res.get("violated"):
        chk.violation("RefLevel.tla inconsistent: " + res["error"][:400], {"kind": "tlc"})
        return
    groups = {}
    for c in res["emits"]:
        groups.setdefault((tuple(c["step"]), c["base"]), []).append(c)
    jobs = [(key, sorted(cs, key=lambda c: (c["k"], c["frac"])), beh) for key, cs in sorted(groups.items())]
    with mp.Pool(12) as pool:
        for out in pool.imap_unordered(_worker, jobs):
            for (step, base), cmd, case, msg in out:
                chk.count("evaluations")
                if case is None:
                    chk.violation("dataset for step %s offset %d: %s" % (step, base, msg),
                                  {"kind": "ref", "step": list(step), "base": base, "detail": msg})
                    continue
                chk.count("traces_validated_against_impl")
                if case != "default" and case["accept"] and step[1] not in (1, 2):
                    chk.count("distinct_nontrivial")
                    chk.sample({"step": dec_str(*step), "reference_typed": dec_str(case["refNum"], case["refDen"]),
                                "k": case["k"], "command": cmd, "spec": "accept, index %d" % case["index"]})
                if msg:
                    nondy = step[1] not in (1, 2)
                    chk.violation(msg, {"kind": "ref", "step": list(step), "base": base, "cmd": cmd, "case": case,
                                        "beh": beh, "detail": msg})


def replay_file(chk, rp):
    out = _worker(((tuple(rp["step"]), rp["base"]), [rp["case"]] if isinstance(rp.get("case"), dict) else [], rp["beh"]))
    chk.count("evaluations"); chk.count("distinct_nontrivial", 2); chk.count("traces_validated_against_impl")
    chk.sample(rp.get("case"))
    for _, cmd, case, msg in out:
        if msg and (not rp.get("cmd") or cmd == rp["cmd"]):
            print("replay:", msg)
            chk.violation("replayed: " + msg, rp)
