"""A dataset file driven through the real CLI, with query helpers."""
import os
import sqlite3

from . import present as P


class Workflow:
    def __init__(self, wd, tag, rain_rows, et_rows, level_rows, zone="UTC", bom=False):
        self.wd, self.tag, self.zone = wd, tag, zone
        self.files = P.Files(wd, rain_rows, et_rows, level_rows, zone, tag=tag, bom=bom)
        self.db = os.path.join(wd, tag + ".sqlite3")
        if os.path.exists(self.db):
            os.unlink(self.db)
        self.log = []

    def run(self, *argv, capture=False):
        o = P.cli([argv[0]] + ([self.db] if argv[0] not in ("load", "simulate", "pestfiles", "plot") else []) + list(argv[1:]),
                  capture=capture)
        self.log.append((argv, o.describe()))
        return o

    def load(self):
        o = P.cli(self.files.load_argv(self.db))
        self.log.append((("load",), o.describe()))
        return o

    def q(self, sql, args=()):
        conn = sqlite3.connect(self.db)
        try:
            return [tuple(r) for r in conn.execute(sql, args).fetchall()]
        finally:
            conn.close()

    def dump(self):
        return P.logical_dump(self.db)

    def cleanup(self):
        for p in list(self.files.paths.values()) + [self.db, self.db + "-journal"]:
            if os.path.exists(p):
                os.unlink(p)
