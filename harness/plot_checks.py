"""PLOT (not a listed property, not in MANIFEST): what `spowtd plot recession` / `plot rise` draw, on datasets
generated from Hydro.tla behaviours, judged by TracePlot.tla.  matplotlib runs with the Agg backend; the figure
is taken when the command calls pyplot.show()."""
import json
import os

from . import tlc
from . import present as P
from . import hydro_checks as HY
from .common import MachineryError, workdir, rm

os.environ.setdefault("MPLBACKEND", "Agg")


def _figure_of(argv):
    """run the CLI command in-process; returns (outcome, list of (color, xdata, ydata)) of the figure shown"""
    import matplotlib
    matplotlib.use("Agg")
    import matplotlib.pyplot as plt
    shown = []
    orig = plt.show
    plt.show = lambda *a, **k: shown.append(plt.gcf())
    try:
        o = P.cli(argv)
    finally:
        plt.show = orig
    lines = []
    for fig in shown[:1]:
        for ln in fig.axes[0].lines:
            lines.append((str(ln.get_color()), [float(v) for v in ln.get_xdata()], [float(v) for v in ln.get_ydata()]))
    plt.close("all")
    return o, lines


def _h2(z_cm):
    return int(round(z_cm * 10 * 2))


def one_dataset(idx, beh, wd):
    dt = HY.DTS[idx % 3]
    wf, outc = HY.run_workflow(beh, dt, "UTC", P.epoch_of(2019, 6, 1) + idx * 86400, 1.0, wd, "pl%d" % idx)
    cases, problems = [], []
    try:
        if not (outc.get("rise") and outc["rise"].ok and outc.get("recession") and outc["recession"].ok):
            return [], []
        ident = "beh%d dt%d" % (idx, dt)
        # --- recession: abscissa in 0.1 s
        U = 10
        o, lines = _figure_of(["plot", "recession", wf.db])
        if not o.ok:
            problems.append((ident, "`plot recession` failed: " + o.describe()))
        else:
            fx = lambda t_d: int(round(t_d * 86400 * U))
            magenta = [[[fx(x), _h2(y)] for x, y in zip(xs, ys)] for col, xs, ys in lines if col == "magenta"]
            other = [[[fx(x), _h2(y)] for x, y in zip(xs, ys)] for col, xs, ys in lines if col != "magenta"]
            members = wf.q("SELECT ri.start_epoch, ri.time_offset_s, zi.thru_epoch FROM recession_interval ri "
                           "JOIN zeta_interval zi ON zi.start_epoch = ri.start_epoch AND zi.interval_type = 'interstorm' "
                           "ORDER BY ri.start_epoch")
            expected = []
            for a, off, z in members:
                rows = wf.q("SELECT epoch, zeta_mm FROM water_level WHERE epoch >= ? AND epoch <= ? ORDER BY epoch", (a, z))
                expected.append([[int(round((e - a + off) * U)), int(round(2 * zz))] for e, zz in rows])
            view = wf.q("SELECT zeta_mm FROM average_recession_time")
            if len(other) != 1:
                problems.append((ident, "`plot recession` drew %d lines besides the intervals, expected the master curve only" % len(other)))
            else:
                cases.append({"id": ident + " recession", "kind": "recession", "z": beh["zstar"], "unitsPerStep": dt * U,
                              "syden": beh["syden"], "tol": 2, "members": len(members), "lines": magenta,
                              "expected": expected, "master": other[0], "levels": [int(round(2 * r[0])) for r in view]})
        # --- rise: abscissa in 1e-4 mm
        o, lines = _figure_of(["plot", "rise", wf.db])
        if not o.ok:
            problems.append((ident, "`plot rise` failed: " + o.describe()))
        else:
            fx = lambda w_cm: int(round(w_cm * 10 * 10000))
            magenta = [[[fx(x), _h2(y)] for x, y in zip(xs, ys)] for col, xs, ys in lines if col == "magenta"]
            other = [[[fx(x), _h2(y)] for x, y in zip(xs, ys)] for col, xs, ys in lines if col != "magenta"]
            segs = wf.q("SELECT ri.start_epoch, ri.rain_depth_offset_mm, strd.total_depth_mm, w1.zeta_mm, w2.zeta_mm "
                        "FROM rising_interval ri JOIN zeta_interval zi ON zi.start_epoch = ri.start_epoch AND zi.interval_type = 'storm' "
                        "JOIN zeta_interval_storm zis ON zis.interval_start_epoch = ri.start_epoch "
                        "JOIN storm_total_rain_depth strd ON strd.storm_start_epoch = zis.storm_start_epoch "
                        "JOIN water_level w1 ON w1.epoch = zi.start_epoch JOIN water_level w2 ON w2.epoch = zi.thru_epoch "
                        "ORDER BY ri.start_epoch")
            expected = [[[int(round(off * 10000)), int(round(2 * z1))], [int(round((off + dep) * 10000)), int(round(2 * z2))]]
                        for _, off, dep, z1, z2 in segs]
            view = wf.q("SELECT zeta_mm FROM average_rising_depth ORDER BY zeta_mm")
            if len(other) != 1:
                problems.append((ident, "`plot rise` drew %d lines besides the intervals, expected the master curve only" % len(other)))
            else:
                cases.append({"id": ident + " rise", "kind": "rise", "z": beh["zstar"], "unitsPerStep": 0,
                              "syden": beh["syden"], "tol": 2, "members": len(segs), "lines": magenta,
                              "expected": expected, "master": other[0], "levels": [int(round(2 * r[0])) for r in view]})
    finally:
        wf.cleanup()
    return cases, problems


def validate(chk, cases, label):
    wd = workdir("plotv")
    try:
        path = os.path.join(wd, "cases.json")
        json.dump(cases, open(path, "w"))
        res = tlc.run("TracePlot", "SPECIFICATION Spec\nPOSTCONDITION AllConsumed\nCHECK_DEADLOCK FALSE\n", workers=1,
                      env={"TRACE_FILE": path}, timeout=1200)
    finally:
        rm(wd)
    chk.add_tlc(res, label)
    if not res["ok"] or res["distinct"] != len(cases) + 1:
        raise MachineryError("TracePlot did not consume all cases: %s" % res["error"][:1200])
    return res["fails"]


def plots(chk, tier):
    q = tier == "quick"
    chk.cov["rule"] = ("`plot recession` / `plot rise` through the CLI entry point (Agg backend) on planted-truth datasets: one "
                       "magenta line per interval of the master curve, equal to the shifted interval the tables describe; the "
                       "master line lists the view's levels; every drawn point lies on the planted curve shifted by one constant "
                       "(TracePlot.tla; 0.1 s / 1e-4 mm fixed point). non-trivial = >= 2 intervals drawn")
    behs = []
    for truth in (["TruthA"] if q else HY.TRUTHS):
        behs += HY.behaviours(chk, "MCHydro simulate depth 14 (datasets for plots) " + truth,
                              HY.hydro_consts(truth, 14, "{14}", start="{2, 4, 7}", max_gap=2, force="TRUE"),
                              simulate="num=%d" % (40 if q else 200), workers=1)
    behs = [b for b in behs if HY._ok(b, "recOK", 2) and HY._ok(b, "riseOK", 2)][:10 if q else 120]
    wd = workdir("plot")
    cases = []
    try:
        for idx, beh in enumerate(behs):
            cs, problems = one_dataset(idx, beh, wd)
            cases += cs
            chk.count("evaluations", len(cs))
            for ident, msg in problems:
                chk.violation("%s: %s" % (ident, msg), {"kind": "plot", "beh": beh, "idx": idx, "detail": msg})
    finally:
        rm(wd)
    if not cases:
        raise MachineryError("no figure could be observed")
    fails = validate(chk, cases, "TracePlot on %d figures" % len(cases))
    chk.count("traces_validated_against_impl", len(cases))
    chk.count("distinct_nontrivial", sum(1 for c in cases if c["members"] >= 2))
    chk.sample({k: cases[0][k] for k in ("id", "members", "master", "levels")})
    by_id = {c["id"]: c for c in cases}
    seen = set()
    for f in fails:
        if (f["id"], f["clause"]) in seen:
            continue
        seen.add((f["id"], f["clause"]))
        c = by_id[f["id"]]
        chk.violation("TLC rejects the figure of %s: %s (item %s)" % (f["id"], f["clause"], f["stretch"]),
                      {"kind": "plot", "case": c, "clause": f["clause"]})


REGISTRY = {"PLOT": {"run": plots, "replay": lambda chk, rp: None}}
