"""pytest plugin (loaded with `-p harness.pytest_snap`, PYTHONPATH=/verif): after the body of
every test of the repository's own suite that used a dataset fixture, the dataset the test
left behind (committed or not) is copied to $SPOWTD_VERIF_SNAPDIR.  Nothing in the repository
is touched; the copies are judged afterwards by the trace specifications (harness/testtrace.py).
"""
import hashlib
import os
import sqlite3

import pytest


@pytest.hookimpl(hookwrapper=True)
def pytest_runtest_call(item):
    outcome = yield
    snapdir = os.environ.get("SPOWTD_VERIF_SNAPDIR")
    if not snapdir:
        return
    conn = None
    for name in ("connection", "loaded_connection", "classified_connection"):
        v = getattr(item, "funcargs", {}).get(name)
        if isinstance(v, sqlite3.Connection):
            conn = v
            break
    if conn is None:
        return
    tag = hashlib.sha1(item.nodeid.encode()).hexdigest()[:12]
    path = os.path.join(snapdir, tag + ".sqlite3")
    try:
        # not Connection.backup(): with the test's write transaction still open it waits for ever
        dst = sqlite3.connect(path)
        dst.executescript("\n".join(conn.iterdump()))
        dst.commit()
        dst.close()
        with open(os.path.join(snapdir, tag + ".txt"), "w") as f:
            f.write("%s\n%s\n" % (item.nodeid, "passed" if outcome.excinfo is None else "failed"))
    except Exception as e:  # noqa  (a closed connection: nothing to observe)
        with open(os.path.join(snapdir, tag + ".err"), "w") as f:
            f.write("%s\n%r\n" % (item.nodeid, e))
