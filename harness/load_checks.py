"""C10 / C11(refusals): MCLoad.tla configurations replayed into the real
`spowtd load`; the field datasets' loads validated by TraceLoad.tla."""
import io
import json
import multiprocessing as mp
import os
import random
import sqlite3
from bisect import bisect_left
from concurrent.futures import ThreadPoolExecutor
from fractions import Fraction

from . import tlc
from . import present as P
from .common import MachineryError, REPO, seed, workdir, rm, import_repo

import_repo()
TICK = 600
RAIN_U, ET_U, LEV_U = 0.5, 0.125, 1.0


def rows_of(inp, e0, shuffle_seed):
    rng = random.Random(shuffle_seed)
    rain = [(e0 + t * TICK, v * RAIN_U) for t, v in inp["rain"]]
    et = [(e0 + t * TICK, v * ET_U) for t, v in inp["et"]]
    lev = [(e0 + t * TICK, v * LEV_U) for t, v in inp["lev"]]
    for r in (rain, et, lev):
        rng.shuffle(r)           # any row order
    return rain, et, lev


def run_load(inp, e0, zone, mode, wd, shuffle_seed):
    rain, et, lev = rows_of(inp, e0, shuffle_seed)
    if mode == "cli":
        files = P.Files(wd, rain, et, lev, zone, tag="l%d" % os.getpid())
        db = os.path.join(wd, "l%d.sqlite3" % os.getpid())
        if os.path.exists(db):
            os.unlink(db)
        o = P.cli(files.load_argv(db))
        err = None if o.ok else o.describe()
        conn = sqlite3.connect(db)
    else:
        conn = sqlite3.connect(":memory:")
        err = None
        try:
            P.load_api(conn, rain, et, lev, zone)
        except Exception as e:  # noqa
            err = "%s: %s" % (type(e).__name__, e)
    try:
        if err:
            return {"error": err}
        t = lambda e: (e - e0) // TICK
        out = {"error": None}
        out["time_grid"] = P.table(conn, "SELECT time_step_s, source_time_zone FROM time_grid")
        out["grid"] = [(t(e), lab) for e, lab in P.table(conn, "SELECT epoch, data_interval FROM grid_time ORDER BY epoch")]
        out["rain"] = [(t(a), t(b), v) for a, b, v in P.table(conn, "SELECT from_epoch, thru_epoch, rainfall_intensity_mm_h FROM rainfall_intensity ORDER BY 1")]
        out["et"] = [(t(a), t(b), v) for a, b, v in P.table(conn, "SELECT from_epoch, thru_epoch, evapotranspiration_mm_h FROM evapotranspiration ORDER BY 1")]
        out["level"] = [(t(e), v) for e, v in P.table(conn, "SELECT epoch, zeta_mm FROM water_level ORDER BY 1")]
        bad = [e for e, in P.table(conn, "SELECT epoch FROM grid_time") if (e - e0) % TICK]
        if bad:
            out["error"] = "grid epochs off the lattice: %s" % bad[:3]
        return out
    finally:
        conn.close()
        if mode == "cli":
            for p in list(files.paths.values()) + [db]:
                if os.path.exists(p):
                    os.unlink(p)


def canon_labels(pairs):
    """labels up to an order-preserving renaming (the property asks for distinctness)"""
    ranks, out = {}, []
    for g, lab in sorted(pairs):
        if lab in (None, 0):
            out.append((g, 0))
        else:
            ranks.setdefault(lab, len(ranks) + 1)
            out.append((g, ranks[lab]))
    # order preserving: ranks must increase with the label value
    labs = [l for l in ranks]
    if labs != sorted(labs):
        return None
    return out


def compare_load(exp, got, zone):
    if exp["refused"] != "none":
        if not got["error"]:
            return "the specification refuses this input (%s) but load accepted it" % exp["refused"]
        want = {"nonuniform": "Nonuniform time steps", "missing_et": "No ET data"}[exp["refused"]]
        if not got["error"].startswith("ValueError") or want not in got["error"]:
            return "refusal expected (%s) but load failed differently: %s" % (exp["refused"], got["error"])
        return None
    if got["error"]:
        return "load failed on an acceptable input: %s" % got["error"]
    diffs = []
    if got["time_grid"] != [(exp["step"] * TICK, zone)]:
        diffs.append("time_grid %r, expected step %d s zone %s" % (got["time_grid"], exp["step"] * TICK, zone))
    eg = canon_labels([tuple(x) for x in exp["grid"]])
    gg = canon_labels(got["grid"])
    if gg is None or eg != gg:
        diffs.append("grid/labels: code %s spec %s" % (got["grid"], sorted(map(tuple, exp["grid"]))))
    for key, unit in (("rain", RAIN_U), ("et", ET_U)):
        e = sorted((a, b, v * unit) for a, b, v in exp[key])
        if e != got[key]:
            diffs.append("%s rows: code %s spec %s" % (key, got[key][:6], e[:6]))
    el = sorted((g, Fraction(nd[0], nd[1]) * Fraction(LEV_U)) for g, nd in exp["level"])
    if [g for g, _ in el] != [g for g, _ in got["level"]]:
        diffs.append("level instants: code %s spec %s" % ([g for g, _ in got["level"]], [g for g, _ in el]))
    else:
        for (g, ev), (_, gv) in zip(el, got["level"]):
            if abs(Fraction(gv) - ev) > Fraction(1, 10**9) * max(1, abs(ev)):
                diffs.append("level at tick %d: code %r spec %s" % (g, gv, ev))
                break
    return "; ".join(diffs) if diffs else None


E0S = [P.epoch_of(2013, 3, 1), P.epoch_of(1999, 12, 31, 22, 0, 0), P.epoch_of(2031, 7, 4, 1, 10, 0)]
ZONES = ["UTC", "Africa/Lagos", "Asia/Kathmandu"]


def _worker(args):
    batch, mode = args
    wd = workdir("load") if mode == "cli" else None
    res = []
    try:
        for idx, obj in batch:
            e0 = E0S[idx % len(E0S)]
            zone = ZONES[idx % len(ZONES)]
            got = run_load(obj["in"], e0, zone, mode, wd, shuffle_seed=idx)
            res.append((idx, compare_load(obj["out"], got, zone), e0, zone))
    finally:
        if wd:
            rm(wd)
    return res


def replay_loads(chk, label, consts, want_refusals, cli_every=6, procs=12):
    """TLC's emissions are consumed as a stream: batches go to the worker pool while TLC is still running"""
    invs = ["Inv_Boundaries", "Inv_GridUniform", "Inv_NoLevelInsideGap", "Inv_DistinctLabels",
            "Inv_LevelBracketed", "Inv_LevelWhereverDefined"]
    cfg = tlc.cfg_text(consts, spec="Spec", invariants=invs + ["EmitInv"])
    pending, batch, n_seen = [], [], [0]
    pool = mp.Pool(procs)

    def flush(mode="api"):
        if batch:
            pending.append((list(batch), pool.apply_async(_worker, ((list(batch), mode),))))
            del batch[:]

    def drain(final):
        while pending and (final or pending[0][1].ready() or len(pending) > 400):
            items, fut = pending.pop(0)
            lookup = dict(items)
            for idx, diff, e0, zone in fut.get():
                obj = lookup[idx]
                chk.count("evaluations")
                chk.count("traces_validated_against_impl")
                nt = (obj["out"]["refused"] != "none") if want_refusals else \
                    (len({lab for _, lab in obj["out"]["grid"]}) >= 2)
                if nt:
                    chk.count("distinct_nontrivial")
                    chk.sample({"input_ticks": obj["in"], "spec_result": obj["out"]})
                if diff:
                    chk.violation("load on %s: %s" % (json.dumps(obj["cfg"]), diff),
                                  {"kind": "load_config", "in": obj["in"], "cfg": obj["cfg"], "out": obj["out"],
                                   "idx": idx, "mode": "api", "detail": diff})

    def on_emit(obj):
        idx = n_seen[0]
        n_seen[0] += 1
        refused = obj["out"]["refused"] != "none"
        if refused != want_refusals:
            return
        batch.append((idx, obj))
        if len(batch) >= 200:
            flush()
        if idx % cli_every == 0:
            pending.append(([(idx, obj)], pool.apply_async(_worker, (([(idx, obj)], "cli"),))))
        drain(False)
    try:
        res = tlc.run("MCLoad", cfg, workers=8, invariants=invs, timeout=6000, on_emit=on_emit)
        flush()
        drain(True)
    finally:
        pool.close()
        pool.join()
    chk.add_tlc(res, label)
    if res.get("violated"):
        chk.violation("TLC: Load.tla violates its own invariant: " + res["error"][:600],
                      {"kind": "tlc", "label": label, "error": res["error"][:3000]})
        return
    if not n_seen[0]:
        raise MachineryError("MCLoad emitted nothing")


def replay_file(chk, rp):
    wd = workdir("rp")
    try:
        idx = rp["idx"]
        got = run_load(rp["in"], E0S[idx % len(E0S)], ZONES[idx % len(ZONES)], rp.get("mode", "api"), wd, idx)
        diff = compare_load(rp["out"], got, ZONES[idx % len(ZONES)])
    finally:
        rm(wd)
    print("replay:", diff)
    if diff:
        chk.violation("replayed: " + diff, rp)
    chk.count("evaluations"); chk.count("distinct_nontrivial", 2); chk.count("traces_validated_against_impl")
    chk.sample(rp["cfg"])


# ---------------------------------------------------------------------------
# field data: TraceLoad
# ---------------------------------------------------------------------------
KL = 100000


def field_trace(k, gaps=0, gseed=0, conn=None):
    """conn: a dataset loaded from the sample files of dataset k by someone else (the repository's tests)"""
    from . import field_checks as FF
    import datetime
    if conn is None:
        conn = FF.loaded(k, gaps, gseed)

    def parse(text):
        rows = []
        for line in text.splitlines()[1:]:
            if not line.strip():
                continue
            d, v = line.split(",")
            # the harness's own conversion: Africa/Lagos is UTC+1 without DST since 1919
            dt = datetime.datetime.strptime(d, "%Y-%m-%d %H:%M:%S")
            ep = int((dt - datetime.datetime(1970, 1, 1)).total_seconds()) - 3600
            rows.append((ep, float(v)))
        return rows
    z_text = FF._read("water_level", k)
    if gaps:
        # reproduce the carving done by FF.loaded
        lines = z_text.splitlines()
        head, rows = lines[0], lines[1:]
        rng = random.Random(gseed)
        cut = set()
        for _ in range(gaps):
            a = rng.randrange(100, len(rows) - 400)
            cut.update(range(a, a + rng.choice([1, 2, 3, 7, 40, 300])))
        rows = [r for i, r in enumerate(rows) if i not in cut]
        z_text = "\n".join([head] + rows) + "\n"
    src = sorted(parse(z_text))
    rain = dict(parse(FF._read("precipitation", k)))
    et = dict(parse(FF._read("evapotranspiration", k)))
    t = build_trace(conn, src, rain, et)
    t["id"] = "load field%d gaps=%d" % (k, gaps)
    return t, sum(1 for e in t["events"] if e["k"] == "grid")


def build_trace(conn, src, rain, et):
    """merge the SOURCE level rows with what load STORED per grid instant (see TraceLoad.tla)"""
    (step_s, zone) = conn.execute("SELECT time_step_s, source_time_zone FROM time_grid").fetchone()
    grid = conn.execute("SELECT epoch, data_interval FROM grid_time ORDER BY epoch").fetchall()
    lev = dict(conn.execute("SELECT epoch, zeta_mm FROM water_level").fetchall())
    srain = dict(conn.execute("SELECT from_epoch, rainfall_intensity_mm_h FROM rainfall_intensity").fetchall())
    set_ = dict(conn.execute("SELECT from_epoch, evapotranspiration_mm_h FROM evapotranspiration").fetchall())
    e0 = src[0][0] - src[0][0] % 60
    tick = 60
    fx = lambda v: int(round(v * KL))
    src_t = [t for t, _ in src]
    src_step = min(b - a for a, b in zip(src_t, src_t[1:]))
    events = []
    gi = 0
    ng = len(grid)
    for t, z in src:
        events.append({"k": "src", "t": (t - e0) // tick, "z": fx(z)})
        while gi < ng and grid[gi][0] <= t:
            events.append(_grid_event(grid, gi, ng, e0, tick, lev, srain, set_, rain, et, fx))
            gi += 1
    while gi < ng:
        events.append(_grid_event(grid, gi, ng, e0, tick, lev, srain, set_, rain, et, fx))
        gi += 1
    assert all((t - e0) % tick == 0 for t in src_t)
    return {"id": "load", "step": step_s // tick, "srcStep": src_step // tick, "tol": 2, "events": events}


def random_load_trace(seed_):
    """irregular inputs TLC did not choose: level on a 1..20 minute step unrelated to the rainfall step,
    random offsets, several gaps of random length, shuffled rows; loaded through the CLI"""
    rng = random.Random(seed_)
    P_ = rng.choice([600, 900, 1200, 1800, 3600])
    Q_ = 60 * rng.choice([1, 2, 5, 7, 10, 13, 20, 30])
    e0 = P.epoch_of(2009, 1, 1) + 86400 * rng.randint(0, 4000) + 3600 * rng.randint(0, 23)
    n_rain = rng.randint(12, 60)
    r0 = e0 + rng.randint(0, 5) * P_
    rain = {r0 + i * P_: round(rng.choice([0, 0, 0, rng.uniform(0, 30)]), 3) for i in range(n_rain)}
    et = {r0 + (i - 2) * P_: round(rng.uniform(0, 0.6), 4) for i in range(n_rain + 5)}
    z0 = e0 + 60 * rng.randint(0, 240)
    n_lev = max(4, int((n_rain * P_ * rng.uniform(0.4, 1.1)) // Q_))
    lev_t = [z0 + i * Q_ for i in range(n_lev)]
    for _ in range(rng.randint(0, 4)):
        a = rng.randrange(1, max(2, n_lev - 2))
        cut = set(range(a, a + rng.choice([1, 1, 2, 5, 11])))
        lev_t = [t for i, t in enumerate([z0 + i * Q_ for i in range(n_lev)]) if i not in cut and t in lev_t]
    if len(lev_t) < 3 or min(b - a for a, b in zip(lev_t, lev_t[1:])) != Q_:
        return None, None
    z = -200.0
    src = []
    for t in lev_t:
        z += rng.uniform(-3, 4)
        src.append((t, round(z, 3)))
    wd = workdir("rload")
    try:
        rr, ee, ll = list(rain.items()), list(et.items()), list(src)
        for x in (rr, ee, ll):
            rng.shuffle(x)
        files = P.Files(wd, rr, ee, ll, "UTC", tag="r")
        db = os.path.join(wd, "r.sqlite3")
        o = P.cli(files.load_argv(db))
        if not o.ok:
            return None, o.describe()
        conn = sqlite3.connect(db)
        try:
            t = build_trace(conn, sorted(src), rain, et)
        finally:
            conn.close()
        t["id"] = "random load %d (rain %ds, level %ds, %d level rows)" % (seed_, P_, Q_, len(src))
        return t, None
    finally:
        rm(wd)


def _grid_event(grid, gi, ng, e0, tick, lev, srain, set_, rain, et, fx):
    g, label = grid[gi]
    closing = gi == ng - 1
    return {"k": "grid", "g": (g - e0) // tick, "label": label or 0, "closing": closing,
            "hasLevel": g in lev, "lev": fx(lev.get(g, 0.0)),
            "rain": fx(srain.get(g, -1.0)), "srcRain": fx(rain.get(g, -2.0)),
            "et": fx(set_.get(g, -1.0) * 100), "srcEt": fx(et.get(g, -2.0) * 100)}


def _validate(trace):
    wd = workdir("tload")
    try:
        path = os.path.join(wd, "t.json")
        with open(path, "w") as f:
            json.dump(trace, f)
        cfg = "SPECIFICATION Spec\nPOSTCONDITION AllConsumed\nCHECK_DEADLOCK FALSE\n"
        res = tlc.run("TraceLoad", cfg, workers=1, env={"TRACE_FILE": path}, timeout=1200, heap="3g")
        if res.get("violated") or not res["ok"] or res["distinct"] != len(trace["events"]) + 2:
            raise MachineryError("TraceLoad did not consume the trace %s: %s" % (trace["id"], res["tail"][-800:]))
        return res
    finally:
        rm(wd)


def field_loads(chk, tier):
    pts = [(2, 0)] if tier == "quick" else [(1, 0), (2, 0), (1, 5), (2, 9), (1, 20)]
    traces = []
    for k, g in pts:
        t, n = field_trace(k, g, seed() + g)
        traces.append(t)
        chk.count("evaluations")
    with mp.Pool(12) as pool:
        rnd = pool.map(random_load_trace, [seed() * 100000 + i for i in range(40 if tier == "quick" else 600)])
    refused = 0
    for t, err in rnd:
        if t is not None:
            traces.append(t)
            chk.count("evaluations")
        elif err is not None:
            refused += 1           # e.g. rainfall not covering two steps of the level span: load refuses
    chk.cov["random_loads_refused_by_load"] = refused
    with ThreadPoolExecutor(max_workers=10) as ex:
        results = list(ex.map(_validate, traces))
    for t, res in zip(traces, results):
        chk.add_tlc(res, "TraceLoad " + t["id"])
        chk.count("traces_validated_against_impl")
        chk.count("distinct_nontrivial")
        for f in res["fails"][:10]:
            ev = t["events"][f["stretch"] - 1] if 0 < f["stretch"] <= len(t["events"]) else None
            chk.violation("TLC rejects the stored result of the field-data load %s at event %s: %s %s" % (
                t["id"], f["stretch"], f["clause"], ev),
                {"kind": "load_field", "trace": t["id"], "clause": f["clause"], "event": ev})
    chk.sample({"field_load_trace": traces[0]["id"], "events": len(traces[0]["events"]),
                "first": traces[0]["events"][:4]})


# ---------------------------------------------------------------------------
# C01 composition: everything Load.tla accepts must classify without an error
# ---------------------------------------------------------------------------
def _classify_worker(batch):
    import spowtd.classify as classify_mod
    out = []
    for idx, obj in batch:
        e0 = E0S[idx % len(E0S)]
        rain, et, lev = rows_of(obj["in"], e0, idx)
        for s_thr, j_thr in ((0.75, 2.0), (2.0, 0.5)):
            conn = sqlite3.connect(":memory:")
            try:
                P.load_api(conn, rain, et, lev, "UTC")
                try:
                    classify_mod.classify_intervals(conn, s_thr, j_thr)
                    err = None
                    # keys of the pairing table are unique by construction of the schema; re-check the join
                    n = conn.execute("SELECT count(*) FROM zeta_interval_storm").fetchone()[0]
                    m = conn.execute("SELECT count(DISTINCT storm_start_epoch) FROM zeta_interval_storm").fetchone()[0]
                    if n != m:
                        err = "a storm is paired twice"
                except Exception as e:  # noqa
                    err = "%s: %s" % (type(e).__name__, str(e)[:200])
            except Exception as e:  # noqa
                err = None      # load itself refused: C10 / C11 territory
            finally:
                conn.close()
            out.append((idx, s_thr, j_thr, err))
    return out


def classify_all_loadable(chk, tier, procs=12):
    consts = dict(QUICK_CONSTS if tier == "quick" else THOROUGH_CONSTS)
    cfg = tlc.cfg_text(consts, spec="Spec", invariants=["EmitInv"])
    kept, n = [], [0]

    def on_emit(o):
        n[0] += 1
        if tier == "quick" or n[0] % 5 == 0:        # thorough: every 5th of ~6*10^5 configurations
            kept.append(o)
    res = tlc.run("MCLoad", cfg, workers=12, timeout=6000, on_emit=on_emit)
    res["emits"] = kept
    chk.add_tlc(res, "MCLoad (configurations that load, then classify)")
    # judged: datasets on which Load.tla stores at least one water level (with none there is nothing to
    # classify and the code's deliberate "No valid data intervals found" is not held against C01)
    items = [(i, o) for i, o in enumerate(res["emits"]) if o["out"]["refused"] == "none" and o["out"]["level"]]
    chk.count("loadable_but_no_level_on_any_grid_instant_not_judged",
              sum(1 for o in res["emits"] if o["out"]["refused"] == "none" and not o["out"]["level"]))
    jobs = [items[i:i + 300] for i in range(0, len(items), 300)]
    lookup = dict(items)
    with mp.Pool(procs) as pool:
        for out in pool.imap_unordered(_classify_worker, jobs):
            for idx, s_thr, j_thr, err in out:
                chk.count("evaluations")
                chk.count("traces_validated_against_impl")
                if err:
                    obj = lookup[idx]
                    chk.violation("a dataset that loads fails to classify (-s %g -j %g): %s; input (ticks of 10 min) %s" % (
                        s_thr, j_thr, err, json.dumps(obj["cfg"])),
                        {"kind": "load_then_classify", "in": obj["in"], "cfg": obj["cfg"], "idx": idx, "s": s_thr, "j": j_thr,
                         "detail": err})


QUICK_CONSTS = {"Ps": "{2, 3}", "Qs": "{1, 2, 3}", "MaxRa": "2", "NRs": "{3, 5}", "MaxZa": "2", "NZs": "{4, 6}", "Emit": "TRUE"}
THOROUGH_CONSTS = {"Ps": "{2, 3, 6}", "Qs": "{1, 2, 3, 6}", "MaxRa": "2", "NRs": "{3, 5, 7}", "MaxZa": "3",
                   "NZs": "{3, 5, 7}", "Emit": "TRUE"}


def replay_load_then_classify(chk, rp):
    out = _classify_worker([(rp["idx"], {"in": rp["in"]})])
    chk.count("evaluations"); chk.count("distinct_nontrivial", 2); chk.count("traces_validated_against_impl")
    chk.sample(rp["cfg"])
    for idx, s_thr, j_thr, err in out:
        if err and s_thr == rp["s"]:
            print("replay:", err)
            chk.violation("replayed: " + err, rp)
