"""Run TLC on a module of /verif/spec and parse what it reports."""
import json
import os
import re
import subprocess
import time

from .common import SPEC, MachineryError, workdir, rm

JAR = "/opt/veriftools/tla/tla2tools.jar"
DEPS = "/opt/veriftools/tla/CommunityModules-deps.jar"

_RE_STATES = re.compile(r"^(\d+) states generated, (\d+) distinct states found")
_RE_DEPTH = re.compile(r"depth of the complete state graph search is (\d+)")
_RE_COV = re.compile(r"^<(\w+) line (\d+), col \d+ to line \d+, col \d+ of module (\w+)>: (\d+):(\d+)")


def cfg_text(constants, spec=None, init=None, next_=None, invariants=(), properties=(),
             constraint=None, postcondition=None, view=None, deadlock=False):
    lines = ["CONSTANTS"]
    for k, v in constants.items():
        lines.append("  %s %s" % (k, v if v.startswith("<-") else "= " + v))
    if spec:
        lines.append("SPECIFICATION %s" % spec)
    else:
        lines.append("INIT %s" % init)
        lines.append("NEXT %s" % next_)
    for i in invariants:
        lines.append("INVARIANT %s" % i)
    for p in properties:
        lines.append("PROPERTY %s" % p)
    if constraint:
        lines.append("CONSTRAINT %s" % constraint)
    if postcondition:
        lines.append("POSTCONDITION %s" % postcondition)
    if view:
        lines.append("VIEW %s" % view)
    lines.append("CHECK_DEADLOCK %s" % ("TRUE" if deadlock else "FALSE"))
    return "\n".join(lines) + "\n"


def run(module, cfg, workers=8, on_emit=None, timeout=3600, extra=(), env=None,
        coverage=False, simulate=None, expect_error=False, wrapper=None, heap="6g",
        invariants=(), properties=()):
    """Run TLC.  `module` is a name in /verif/spec (or the name of `wrapper`,
    a (name, text) pair written to the scratch dir and resolved against
    /verif/spec through TLA-Library).  EMIT lines are parsed and handed to
    on_emit (or collected).  Returns a dict; raises MachineryError when TLC
    fails for a reason that is not a property violation."""
    wd = workdir("tlc")
    try:
        cfg_path = os.path.join(wd, "mc.cfg")
        with open(cfg_path, "w") as f:
            f.write(cfg)
        if wrapper:
            name, text = wrapper
            mod_path = os.path.join(wd, name + ".tla")
            with open(mod_path, "w") as f:
                f.write(text)
        else:
            mod_path = os.path.join(SPEC, module + ".tla")
        cmd = ["java", "-XX:+UseParallelGC", "-Xss32m", "-Xmx" + heap, "-DTLA-Library=" + SPEC,
               "-cp", JAR + ":" + DEPS, "tlc2.TLC",
               "-workers", str(workers), "-metadir", os.path.join(wd, "meta"),
               "-noGenerateSpecTE", "-config", cfg_path]
        if coverage:
            cmd += ["-coverage", "1"]
        if simulate:
            cmd += ["-simulate", simulate]
        cmd += list(extra) + [mod_path]
        e = dict(os.environ)
        if env:
            e.update(env)
        t0 = time.time()
        proc = subprocess.Popen(cmd, stdout=subprocess.PIPE, stderr=subprocess.STDOUT,
                                text=True, cwd=wd, env=e)
        emits = []
        fails = []
        tail = []
        res = {"generated": 0, "distinct": 0, "depth": None, "coverage": {}, "n_emit": 0,
               "invariants": list(invariants), "properties": list(properties)}
        ok = False
        error_lines = []
        in_error = False
        try:
            for line in proc.stdout:
                line = line.rstrip("\n")
                if line.startswith('"EMIT '):
                    obj = json.loads(json.loads(line)[5:])
                    res["n_emit"] += 1
                    if on_emit:
                        on_emit(obj)
                    else:
                        emits.append(obj)
                    continue
                if line.startswith('"FAIL '):
                    fails.append(json.loads(json.loads(line)[5:]))
                    continue
                if line.startswith("Computed ") or line.startswith("Progress("):
                    continue
                tail.append(line)
                if len(tail) > 400:
                    del tail[:100]
                m = _RE_STATES.match(line)
                if m:
                    res["generated"], res["distinct"] = int(m.group(1)), int(m.group(2))
                m = _RE_DEPTH.search(line)
                if m:
                    res["depth"] = int(m.group(1))
                m = _RE_COV.match(line)
                if m:
                    res["coverage"][m.group(1)] = [int(m.group(4)), int(m.group(5))]
                if "Model checking completed. No error has been found." in line:
                    ok = True
                if line.startswith("Error:") or in_error:
                    in_error = True
                    error_lines.append(line)
                if time.time() - t0 > timeout:
                    proc.kill()
                    raise MachineryError("TLC timed out after %ss on %s" % (timeout, module))
            proc.wait()
        finally:
            if proc.poll() is None:
                proc.kill()
        res["wall_s"] = time.time() - t0
        res["ok"] = ok
        res["emits"] = emits
        res["fails"] = fails
        res["error"] = "\n".join(error_lines[:80])
        res["tail"] = "\n".join(tail[-60:])
        if simulate and not error_lines:
            res["ok"] = ok = True
        if not ok and not expect_error:
            # distinguish property violations (reported by caller) from machinery
            if any(("Invariant" in l and "is violated" in l) or "Temporal properties were violated" in l
                   or "Deadlock reached" in l or "postcondition" in l.lower() for l in error_lines):
                res["violated"] = True
            else:
                raise MachineryError("TLC failed on %s:\n%s\n...\n%s" % (module, res["error"][:1200], res["tail"][-800:]))
        return res
    finally:
        rm(wd)
