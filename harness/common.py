"""Shared machinery: paths, tiers, evidence, violations, known findings."""
import hashlib
import json
import os
import shutil
import sys
import tempfile
import time

VERIF = os.path.dirname(os.path.dirname(os.path.abspath(__file__)))
REPO = os.environ.get("SPOWTD_REPO", "/repo")
SPEC = os.path.join(VERIF, "spec")
WORK = os.path.join(VERIF, "work")
EVIDENCE = os.environ.get("VERIF_EVIDENCE_DIR") or os.path.join(VERIF, "evidence")   # (override: tools/seed.py runwt)
REPLAYS = os.environ.get("VERIF_REPLAY_DIR") or os.path.join(VERIF, "replays")
KNOWN = os.path.join(VERIF, "KNOWN_FINDINGS.json")

EXIT_OK, EXIT_VIOLATION, EXIT_MACHINERY = 0, 1, 2


class MachineryError(Exception):
    """The check itself is broken (TLC parse error, vacuous coverage...)."""


def seed():
    try:
        return int(os.environ.get("VERIF_SEED", "0"))
    except ValueError:
        return 0


def workdir(tag):
    os.makedirs(WORK, exist_ok=True)
    return tempfile.mkdtemp(prefix=tag + "-", dir=WORK)


def rm(path):
    shutil.rmtree(path, ignore_errors=True)


def import_repo():
    """Make /repo's working tree importable (fresh import on every run)."""
    if REPO not in sys.path:
        sys.path.insert(0, REPO)
    sys.dont_write_bytecode = True


def load_known():
    if not os.path.exists(KNOWN):
        return []
    with open(KNOWN) as f:
        return json.load(f).get("findings", [])


class Check:
    """Collects what one run of one property's check covered."""

    def __init__(self, prop, tier, level="model_checking"):
        self.prop = prop
        self.tier = tier
        self.level = level
        self.t0 = time.time()
        self.cov = {
            "states": 0,
            "transitions": 0,
            "traces_validated_against_impl": 0,
            "evaluations": 0,
            "distinct_nontrivial": 0,
            "samples": [],
            "rule": "",
            "tlc_runs": [],
        }
        self.assumptions = []
        self.violations = []       # replay paths
        self.known_hits = {}       # key -> count
        self.notes = []
        self._known = [k for k in load_known() if k.get("property") == prop and k.get("status") == "open"]

    # -- coverage -----------------------------------------------------------
    def add_tlc(self, res, label):
        self.cov["states"] += res.get("distinct", 0)
        self.cov["transitions"] += res.get("generated", 0)
        self.cov["tlc_runs"].append({
            "label": label,
            "states_generated": res.get("generated", 0),
            "distinct_states": res.get("distinct", 0),
            "depth": res.get("depth"),
            "wall_s": round(res.get("wall_s", 0.0), 2),
            "invariants": res.get("invariants", []),
            "properties": res.get("properties", []),
            "emitted": res.get("n_emit", 0),
            "coverage": res.get("coverage", {}),
        })

    def sample(self, obj, cap=6):
        if len(self.cov["samples"]) < cap:
            self.cov["samples"].append(obj)

    def count(self, key, n=1):
        self.cov[key] = self.cov.get(key, 0) + n

    # -- verdicts -----------------------------------------------------------
    def violation(self, what, replay):
        """Record a violation unless it is a listed known finding.

        `replay` is a JSON-serialisable dict with enough to re-run the case;
        replay['key'] (optional) is matched against KNOWN_FINDINGS keys."""
        key = replay.get("key")
        for k in self._known:
            if key is not None and k.get("key") == key:
                self.known_hits.setdefault(key, [0, k.get("what", "")])
                self.known_hits[key][0] += 1
                return None
        replay = dict(replay)
        replay["property"] = self.prop
        replay["what"] = what
        blob = json.dumps(replay, sort_keys=True, default=str)
        h = hashlib.sha1(blob.encode()).hexdigest()[:12]
        os.makedirs(REPLAYS, exist_ok=True)
        path = os.path.join(REPLAYS, "%s-%s.json" % (self.prop, h))
        if path not in self.violations:
            self.violations.append(path)
            if len(self.violations) <= 25:   # cap the files written, count all
                with open(path, "w") as f:
                    json.dump(replay, f, indent=1, sort_keys=True, default=str)
                print("VIOLATION property=%s replay=%s" % (self.prop, path), flush=True)
                print("  " + what[:400], flush=True)
        return path

    def finish(self, name=None):
        for key, (n, what) in sorted(self.known_hits.items()):
            print("KNOWN-FINDING: property=%s %s [%s] (%d cases)" % (self.prop, what, key, n), flush=True)
        wall = time.time() - self.t0
        cov = self.cov
        if not cov["samples"]:
            cov["samples"] = ["(no sample recorded)"]
        ev = {
            "property_id": self.prop,
            "tier": self.tier,
            "seed": seed(),
            "level": self.level,
            "coverage": cov,
            "assumptions": self.assumptions,
            "wall_s": round(wall, 2),
            "violations": len(self.violations),
            "notes": self.notes,
            "known_findings_hit": {k: v[0] for k, v in self.known_hits.items()},
        }
        os.makedirs(EVIDENCE, exist_ok=True)
        tmp = os.path.join(EVIDENCE, ".%s.json.tmp" % self.prop)
        with open(tmp, "w") as f:
            json.dump(ev, f, indent=1, default=str)
        os.replace(tmp, os.path.join(EVIDENCE, "%s.json" % (name or self.prop)))
        status = "VIOLATIONS=%d" % len(self.violations) if self.violations else "held"
        print("%s %s tier=%s seed=%d states=%d replayed/validated=%d wall=%.1fs" % (
            self.prop, status, self.tier, seed(), cov["states"],
            cov["traces_validated_against_impl"], wall), flush=True)
        return EXIT_VIOLATION if self.violations else EXIT_OK
