from .pest_checks import REGISTRY  # noqa
