"""C07: the same abstract record at several time origins / zones / through
the real workflow; TLC (TraceShift.tla) judges equality of the projections."""
import json
import multiprocessing as mp
import os
import random

from . import tlc
from . import present as P
from . import hydro_checks as HY
from . import classify_checks as CC
from .workflow import Workflow
from .common import MachineryError, seed, workdir, rm

# origins: different binades of epoch/3600 and of epoch itself, 1975..2037
ORIGINS = [P.epoch_of(1975, 3, 9), P.epoch_of(1986, 11, 2, 0, 20, 0), P.epoch_of(2004, 1, 10, 13, 40, 0),
           P.epoch_of(2013, 2, 20), P.epoch_of(2021, 8, 29, 7, 0, 0), P.epoch_of(2037, 6, 1, 0, 40, 0),
           # before and across the Unix origin: negative epochs
           P.epoch_of(1963, 7, 14, 6, 0, 0), -7200]
ZONES = ["UTC", "Etc/GMT-7", "Etc/GMT+5", "Asia/Kolkata"]


def project(wf, pres, rec, outc):
    """origin-free projection of everything the workflow stored"""
    import sqlite3
    status = {k: (v.ok if v is not None else None) for k, v in outc.items()}
    run = {"status": json.dumps(status, sort_keys=True)}
    empty = dict(flags="", storm="", rise="", pair="", inter="", recession_curve="", rise_curve="",
                 recession_members="", rise_members="")
    run.update(empty)
    if not outc.get("classify") or not outc["classify"].ok:
        return run
    conn = sqlite3.connect(wf.db)
    try:
        try:
            proj, problems, _ = P.project_classification(conn, pres, rec)
        except Exception as e:  # noqa: stored epochs that are not where this presentation put the samples
            first = conn.execute("SELECT min(epoch) FROM grid_time").fetchone()[0]
            run["status"] = "stored epochs cannot be re-based to sample indices (%s): first grid instant %s, expected %s" % (
                type(e).__name__, first, pres.e0)
            return run
        run["flags"] = json.dumps([[list(p["flags"].get(q + 1, ())) for q in range(len(st["rain"]))]
                                   for p, st in zip(proj, rec)])
        for key in ("storm", "rise", "pair", "inter"):
            run[key] = json.dumps([sorted(map(list, p[key])) for p in proj])
        idx = lambda e: (e - pres.e0) // pres.dt
        if outc.get("recession") and outc["recession"].ok:
            run["recession_curve"] = json.dumps([[float(z).hex(), float(t).hex()] for z, t in conn.execute(
                "SELECT zeta_mm, elapsed_time_s FROM average_recession_time ORDER BY zeta_mm")])
            run["recession_members"] = json.dumps([[idx(e), float(o).hex()] for e, o in conn.execute(
                "SELECT start_epoch, time_offset_s FROM recession_interval ORDER BY start_epoch")])
        if outc.get("rise") and outc["rise"].ok:
            run["rise_curve"] = json.dumps([[float(z).hex(), float(w).hex()] for z, w in conn.execute(
                "SELECT zeta_mm, mean_crossing_depth_mm FROM average_rising_depth ORDER BY zeta_mm")])
            run["rise_members"] = json.dumps([[idx(e), float(o).hex()] for e, o in conn.execute(
                "SELECT start_epoch, rain_depth_offset_mm FROM rising_interval ORDER BY start_epoch")])
    finally:
        conn.close()
    return run


def runs_for_hydro(beh, dt, views, wd, tag):
    runs = []
    for vi, (e0, zone) in enumerate(views):
        wf, outc = HY.run_workflow(beh, dt, zone, e0, 1.0, wd, "%s_%d" % (tag, vi))
        try:
            runs.append(project(wf, wf.pres, wf.rec, outc))
        finally:
            wf.cleanup()
    return runs


def runs_for_record(rec, dt, views, wd, tag, stagger=0):
    """a Classify lattice record with AT-threshold increments (J = 1 mm per step)"""
    runs = []
    dt_h = dt / 3600.0
    for vi, (e0, zone) in enumerate(views):
        # thresholds as a user would type them: 3 mm/h on a 20-minute grid is 1 mm per step
        pres = P.Presentation(dt=dt, e0=e0, s_real=4.0, j_real={1200: 3.0, 1800: 2.0, 3600: 1.0, 600: 6.0}[dt],
                              S=4, J=1, gap=1, gap_rain=0, zone=zone, stagger=stagger)
        rain_rows, et_rows, level_rows = pres.series(rec)
        wf = Workflow(wd, "%s_%d" % (tag, vi), rain_rows, et_rows, level_rows, zone)
        outc = {"load": wf.load()}
        if outc["load"].ok:
            outc["classify"] = wf.run("classify", "-s", repr(pres.s_real), "-j", repr(pres.j_real))
        try:
            runs.append(project(wf, pres, rec, outc))
        finally:
            wf.cleanup()
    return runs


OFFSET = {"UTC": 0, "Etc/GMT-7": 7 * 3600, "Etc/GMT+5": -5 * 3600, "Asia/Kolkata": 19800}


def _views(rng, dt, n, wall_clock=False):
    """wall_clock: the SAME wall-clock files declared in other fixed-offset zones (the absolute shift, e.g.
    5 h 30 min, need not be a whole number of steps); otherwise origins shifted by whole steps"""
    vs = []
    base = rng.choice(ORIGINS)
    base -= base % dt
    vs.append((base, "UTC"))
    if wall_clock:
        for zone in rng.sample(ZONES[1:], n - 1):
            vs.append((base - OFFSET[zone], zone))
        return vs
    for _ in range(n - 1):
        o = rng.choice(ORIGINS) + dt * rng.randint(0, 5000)
        vs.append((o - o % dt, rng.choice(ZONES)))
    return vs


def _worker(batch):
    wd = workdir("shift")
    out = []
    try:
        for cid, kind, obj, dt, views in batch:
            tag = "s%d_%d" % (os.getpid(), cid)
            stagger = dt // 2 if (kind == "record" and cid % 4 == 1) else 0
            runs = runs_for_hydro(obj, dt, views, wd, tag) if kind == "hydro" else runs_for_record(obj, dt, views, wd, tag, stagger)
            out.append({"id": cid, "runs": runs, "prop": "C07", "between": "time origins"})
    finally:
        rm(wd)
    return out


def c07(chk, tier):
    q = tier == "quick"
    chk.cov["rule"] = (
        "abstract records come from TLC: MCClassify records over increments {fall, EXACTLY threshold x step, fast} "
        "and Hydro.tla behaviours; each is presented at 3 time origins (1975..2037, shifted by whole steps) / "
        "fixed-offset zones with steps 20, 30, 60 min (20 min: step length in hours is not a binary fraction) "
        "and run through load + classify (+ set-zeta-grid, recession, rise for Hydro behaviours); projections "
        "re-based to sample indices, curve values as hex floats; TraceShift.tla judges field-by-field equality. "
        "non-trivial = record with an at-threshold increment or an assembled curve")
    rng = random.Random(seed() + 3)
    # records with at-threshold increments
    consts = {"N1": "5" if q else "6", "N2": "2", "RainVals": "{0, 2, 5}", "IncVals": "<- IncFallAtFast",
              "S": "4", "J": "1", "Emit": "TRUE"}
    res = tlc.run("MCClassify", tlc.cfg_text(consts, spec="Spec", invariants=["EmitInv"]), workers=12, timeout=3000)
    chk.add_tlc(res, "MCClassify at-threshold records")
    recs = {}
    for o in res["emits"]:
        recs[json.dumps(o["rec"])] = o["rec"]
    recs = [r for r in recs.values() if any(len(st["rain"]) >= 2 for st in r)]
    rng.shuffle(recs)
    recs = recs[:400 if q else 6000]
    behs = HY.behaviours(chk, "MCHydro simulate depth 14", HY.hydro_consts("TruthA", 14, "{14}", start="{2, 4, 7}",
                                                                            max_gap=2, force="TRUE"),
                         simulate="num=%d" % (30 if q else 300), workers=1)[:40 if q else 500]
    jobs, cid = [], 0
    meta = {}
    for r in recs:
        dt = [1200, 3600, 1800, 3600][cid % 4]
        v = _views(rng, dt, 3, wall_clock=cid % 2 == 1)
        jobs.append((cid, "record", r, dt, v)); meta[cid] = ("record", r, dt, v); cid += 1
    for b in behs:
        dt = [1200, 1800, 3600][cid % 3]
        v = _views(rng, dt, 3, wall_clock=cid % 2 == 1)
        jobs.append((cid, "hydro", b, dt, v)); meta[cid] = ("hydro", b, dt, v); cid += 1
    cases = []
    batches = [jobs[i:i + 15] for i in range(0, len(jobs), 15)]
    with mp.Pool(12) as pool:
        for out in pool.imap_unordered(_worker, batches):
            cases += out
    cases.sort(key=lambda c: c["id"])
    wd = workdir("tshift")
    try:
        path = os.path.join(wd, "cases.json")
        with open(path, "w") as f:
            json.dump(cases, f)
        res = tlc.run("TraceShift", "SPECIFICATION Spec\nPOSTCONDITION AllConsumed\nCHECK_DEADLOCK FALSE\n",
                      workers=1, env={"TRACE_FILE": path}, timeout=3000)
    finally:
        rm(wd)
    chk.add_tlc(res, "TraceShift on %d cases" % len(cases))
    if not res["ok"] or res["distinct"] != len(cases) + 1:
        raise MachineryError("TraceShift did not consume all cases: " + res["tail"][-800:])
    for c in cases:
        chk.count("evaluations", len(c["runs"]))
        chk.count("traces_validated_against_impl")
        kind, obj, dt, v = meta[c["id"]]
        if kind == "hydro":
            nt = bool(c["runs"][0]["recession_curve"] or c["runs"][0]["rise_curve"])
        else:
            nt = any(1 in st["inc"] for st in obj)
        if nt:
            chk.count("distinct_nontrivial")
            if kind == "record":
                chk.sample({"record": obj, "dt": dt, "views": v, "flags": c["runs"][0]["flags"]})
    seen = set()
    for f in res["fails"]:
        if f["id"] in seen:
            continue
        seen.add(f["id"])
        kind, obj, dt, v = meta[f["id"]]
        case = cases[f["id"]]
        r = f["stretch"]
        field = f["clause"].split()[1]
        chk.violation("%s; %s step %d s: at origin %s (%s): %s  but at origin %s (%s): %s" % (
            f["clause"], kind, dt, v[0][0], v[0][1], case["runs"][0][field][:300], v[r - 1][0], v[r - 1][1],
            case["runs"][r - 1][field][:300]),
            {"kind": "shift", "source": kind, "obj": obj, "dt": dt, "views": v, "clause": f["clause"],
             "stagger": dt // 2 if (kind == "record" and f["id"] % 4 == 1) else 0,
             "key": "C07-rate-rounding-nonbinary-step" if (dt % 900 and field in ("flags", "inter")) else None})


def replay_file(chk, rp):
    wd = workdir("rp")
    try:
        views = [tuple(v) for v in rp["views"]]
        runs = runs_for_hydro(rp["obj"], rp["dt"], views, wd, "rp") if rp["source"] == "hydro" else \
            runs_for_record(rp["obj"], rp["dt"], views, wd, "rp", rp.get("stagger", 0))
    finally:
        rm(wd)
    chk.count("evaluations"); chk.count("distinct_nontrivial", 2); chk.count("traces_validated_against_impl")
    chk.sample(rp["obj"] if rp["source"] == "record" else rp["obj"]["ev"])
    for r in runs[1:]:
        for k in r:
            if r[k] != runs[0][k]:
                print("replay: %s differs: %s vs %s" % (k, runs[0][k][:200], r[k][:200]))
                chk.violation("replayed: %s differs between origins" % k, rp)
                return
    print("replay: equal")
