"""C06 (and the shared workflow driver for C07, C09, C13): behaviours of the
planted-truth generator Hydro.tla replayed through the whole CLI."""
import json
import multiprocessing as mp
import os
import random
from fractions import Fraction

from . import tlc
from . import present as P
from .workflow import Workflow
from .common import MachineryError, seed, workdir, rm

TRUTHS = ["TruthA", "TruthB", "TruthC"]


def hydro_consts(truth, max_ev, emit_at, start="{3, 6}", max_gap=1, force="FALSE"):
    return {"ZStar": "<- " + truth, "SyDen": "4", "MaxEv": str(max_ev), "StartKs": start, "MaxRecede": "3",
            "StormLens": "{1, 2, 3}", "MaxGap": str(max_gap), "EmitAt": emit_at, "ForceDrizzle": force}


def behaviours(chk, label, consts, simulate=None, workers=12):
    invs = ["Inv_ClassifiedEqualsPlanted", "Inv_OnLattice"]
    cfg = tlc.cfg_text(consts, spec="Spec", invariants=invs + ["EmitInv"])
    res = tlc.run("MCHydro", cfg, workers=workers, simulate=simulate, invariants=invs, timeout=3000,
                  extra=("-seed", str(seed() + 1)) if simulate else ())
    chk.add_tlc(res, label)
    if res.get("violated") or (simulate and res["error"]):
        chk.violation("Hydro.tla: the classifier's definitions do not recover what was planted: " + res["error"][:600],
                      {"kind": "tlc", "label": label})
        return []
    return res["emits"]


def presentation(beh, dt, zone="UTC", e0=None, thr=(1.0, 1.0), sub=1):
    """thr: factors on the two thresholds, inside the range consistent with the truth: drizzle carries 1 rain
    unit and every storm step >= 2 (s in [1, 2) units); recession increments are negative, drizzle 0 and storm
    steps >= 2 mm (j in [0, 2) mm per step)"""
    syden = beh["syden"]
    dt_h = dt / 3600.0
    pres = P.Presentation(dt=dt, e0=e0, s_real=(1.0 / syden) / dt_h, j_real=1.0 / dt_h, S=1, J=1, gap=1,
                          gap_rain=0, zone=zone, sub=sub)
    pres.s_real *= thr[0]
    pres.j_real *= thr[1]
    rec = []
    gaps = [e["n"] for e in beh["ev"] if e["type"] == "gap"]
    for k, st in enumerate(beh["rec"]):
        d = {"rain": st["rain"], "inc": st["inc"], "first": beh["first"][k]}
        if k < len(gaps):
            d["gap_after"] = gaps[k]
        rec.append(d)
    return pres, rec


def tstar(beh):
    """exact truth T*(h2) in steps, from the lattice (same formula as Hydro!TStar)"""
    z = beh["zstar"]
    def T(h2):
        for a in range(len(z) - 1):
            if 2 * z[a] >= h2 >= 2 * z[a + 1]:
                return Fraction(2 * a * (z[a] - z[a + 1]) + (2 * z[a] - h2), 2 * (z[a] - z[a + 1]))
        return None
    return T


def run_workflow(beh, dt, zone, e0, delta, wd, tag, ref=None, keep=False, et_of=None, thr=(1.0, 1.0), sub=1):
    """load, classify, set-zeta-grid, recession, rise; returns (wf, outcomes)"""
    pres, rec = presentation(beh, dt, zone, e0, thr, sub)
    if et_of is not None:
        pres.et_of = et_of
    rain_rows, et_rows, level_rows = pres.series(rec)
    wf = Workflow(wd, tag, rain_rows, et_rows, level_rows, zone)
    wf.pres, wf.rec = pres, rec
    out = {}
    out["load"] = wf.load()
    if out["load"].ok:
        out["classify"] = wf.run("classify", "-s", repr(pres.s_real), "-j", repr(pres.j_real))
    if out.get("classify") is not None and out["classify"].ok:
        out["grid"] = wf.run("set-zeta-grid", "-d", repr(delta))
        rargs = [] if ref is None else ["-r", ref]
        out["recession"] = wf.run("recession", *rargs)
        out["rise"] = wf.run("rise", *rargs)
    return wf, out


def judge_c06(beh, wf, out, delta):
    """compare the assembled master curves with the planted truth"""
    pres = wf.pres
    d2 = int(round(delta * 2))
    problems = []
    for step in ("load", "classify", "grid"):
        if step not in out or not out[step].ok:
            return ["%s failed: %s" % (step, out[step].describe() if step in out else "not run")]
    # classification recovers what was planted (end to end)
    conn_proj, probs, _ = P.project_classification(_conn(wf), pres, wf.rec)
    for k, pl in enumerate(beh["planted"]):
        got = conn_proj[k]
        if got["storm"] != {tuple(x) for x in pl["storm"]}:
            problems.append("stretch %d: storms %s, planted %s" % (k + 1, sorted(got["storm"]), pl["storm"]))
        if got["inter"] != {tuple(x) for x in pl["rec"]}:
            problems.append("stretch %d: interstorm intervals %s, planted %s" % (k + 1, sorted(got["inter"]), pl["rec"]))
        dep = {s: d for s, d in got["depth"]}
        for s, d in pl["depth"]:
            if abs(dep.get(s, -1) - d) > 1e-9:
                problems.append("stretch %d: depth of storm at %d is %r, planted %d" % (k + 1, s, dep.get(s), d))
    if problems:
        return problems[:4]
    T = tstar(beh)
    if beh["recOK"][str(d2)] if isinstance(beh["recOK"], dict) else beh["recOK"][{1: 0, 2: 1, 4: 2}[d2]]:
        if not out["recession"].ok:
            problems.append("recession failed although the planted pieces overlap: " + out["recession"].describe())
        else:
            rows = wf.q("SELECT zeta_mm, elapsed_time_s FROM average_recession_time ORDER BY zeta_mm")
            if len(rows) < 1:
                problems.append("recession curve is empty")
            else:
                z0, t0 = rows[-1]
                if abs(t0) > 1e-6:
                    problems.append("recession curve is not zero at its highest level: %r" % (t0,))
                for z, t in rows:
                    want = (T(int(round(2 * z))) - T(int(round(2 * z0)))) * pres.dt
                    if abs(t - t0 - float(want)) > 1e-6 * max(1.0, abs(float(want))):
                        problems.append("master recession at %g mm: %.9g s after %g mm, truth %.9g s" % (
                            z, t - t0, z0, float(want)))
                        break
                # aligned pieces coincide
                (step_mm,) = wf.q("SELECT grid_interval_mm FROM zeta_grid")[0]
                master = {round(z / step_mm): t for z, t in rows}
                for se, zn, v, off in wf.q(
                        "SELECT riz.start_epoch, zeta_number, mean_crossing_time, time_offset_s "
                        "FROM recession_interval_zeta riz JOIN recession_interval USING (start_epoch)"):
                    if abs(off + v - master[zn]) > 1e-6 * max(1.0, abs(master[zn])):
                        problems.append("aligned recession piece starting %d is %.9g s at level %d, master %.9g" % (
                            se, off + v, zn, master[zn]))
                        break
    if beh["riseOK"][str(d2)] if isinstance(beh["riseOK"], dict) else beh["riseOK"][{1: 0, 2: 1, 4: 2}[d2]]:
        if not out["rise"].ok:
            problems.append("rise failed although the planted rises overlap: " + out["rise"].describe())
        else:
            rows = wf.q("SELECT zeta_mm, mean_crossing_depth_mm FROM average_rising_depth ORDER BY zeta_mm")
            if len(rows) < 1:
                problems.append("rise curve is empty")
            else:
                z0, w0 = rows[-1]
                if abs(w0) > 1e-9:
                    problems.append("rise curve is not zero at its highest level: %r" % (w0,))
                for z, w in rows:
                    want = (z - z0) / beh["syden"]
                    if abs(w - w0 - want) > 1e-9 * max(1.0, abs(want)):
                        problems.append("master rise at %g mm: %.12g mm relative to %g mm, truth %.12g" % (z, w - w0, z0, want))
                        break
                (step_mm,) = wf.q("SELECT grid_interval_mm FROM zeta_grid")[0]
                master = {round(z / step_mm): w for z, w in rows}
                for se, zn, v, off in wf.q(
                        "SELECT riz.start_epoch, zeta_number, mean_crossing_depth_mm, rain_depth_offset_mm "
                        "FROM rising_interval_zeta riz JOIN rising_interval USING (start_epoch)"):
                    if abs(off + v - master[zn]) > 1e-9 * max(1.0, abs(master[zn])):
                        problems.append("aligned rise starting %d is %.12g mm at level %d, master %.12g" % (
                            se, off + v, zn, master[zn]))
                        break
    return problems[:4]


def _conn(wf):
    import sqlite3
    return sqlite3.connect(wf.db)


DTS = [1800, 3600, 900]
DELTAS = [1.0, 0.5, 2.0]
ZONES = ["UTC", "Africa/Lagos", "Etc/GMT+5"]
SUBS = [1, 1, 1, 2]      # level readings per grid step


def _worker(batch):
    wd = workdir("hyd")
    out = []
    try:
        for idx, beh in batch:
            dt = DTS[idx % 3]
            delta = DELTAS[(idx // 3) % 3]
            zone = ZONES[(idx // 9) % 3]
            e0 = P.epoch_of(2011, 5, 17) + (idx % 7) * 86400 * 30
            thr = [(1.0, 1.0), (1.75, 0.25), (1.25, 1.9)][(idx // 27) % 3 if idx >= 27 else idx % 3]
            sub = SUBS[(idx // 2) % 4]
            wf, outc = run_workflow(beh, dt, zone, e0, delta, wd, "h%d_%d" % (os.getpid(), idx), thr=thr, sub=sub)
            try:
                probs = judge_c06(beh, wf, outc, delta)
            except Exception as e:  # noqa
                probs = ["harness could not judge: %r" % (e,)]
            finally:
                wf.cleanup()
            out.append((idx, dt, delta, zone, e0, probs, thr, sub))
    finally:
        rm(wd)
    return out


def _ok(beh, which, d2):
    v = beh[which]
    return v[str(d2)] if isinstance(v, dict) else v[{1: 0, 2: 1, 4: 2}[d2]]


def c06(chk, tier):
    q = tier == "quick"
    chk.cov["rule"] = (
        "TLC explores the planted-truth generator Hydro.tla (events Recede / Storm / Drizzle / Gap on a master "
        "recession lattice with constant specific yield), checking on every behaviour that the classifier's "
        "definitions recover exactly the planted storms, depths and recessions; finished behaviours (exhaustive "
        "to depth 4-5, simulated to depth 12-30) are written as text files and driven through load, classify, "
        "set-zeta-grid, recession, rise via the CLI entry point at time steps 15/30/60 min, grid steps 1/0.5/2 mm "
        "and three zones; both master curves must equal the truth up to origin (recession 1e-6 s, rise 1e-9 mm) "
        "and every aligned piece must coincide with the master. non-trivial = both curves assemblable")
    behs = []
    behs += behaviours(chk, "MCHydro exhaustive depth 4 TruthA", hydro_consts("TruthA", 4, "{4}"))
    rng = random.Random(seed())
    rng.shuffle(behs)
    behs = behs[:100 if q else 1500]
    for ti, truth in enumerate(TRUTHS):
        behs += behaviours(chk, "MCHydro simulate depth 14 (drizzle after every storm) " + truth,
                           hydro_consts(truth, 14, "{14}", start="{2, 4, 7}", max_gap=2, force="TRUE"),
                           simulate="num=%d" % (40 if q else 400), workers=1)[:60 if q else 100000]
        behs += behaviours(chk, "MCHydro simulate depth 12 " + truth,
                           hydro_consts(truth, 12, "{12}", start="{2, 4, 7}", max_gap=2),
                           simulate="num=%d" % (20 if q else 300), workers=1)[:30 if q else 100000]
    if not q:
        behs += behaviours(chk, "MCHydro simulate depth 30", hydro_consts("TruthB", 30, "{30}", start="{5}", max_gap=2),
                           simulate="num=300", workers=1)
    if not behs:
        raise MachineryError("no behaviour emitted")
    items = list(enumerate(behs))
    jobs = [items[i:i + 20] for i in range(0, len(items), 20)]
    with mp.Pool(12) as pool:
        for out in pool.imap_unordered(_worker, jobs):
            for idx, dt, delta, zone, e0, probs, thr, sub in out:
                beh = behs[idx]
                if sub > 1:
                    chk.count("level_file_finer_than_grid")
                chk.count("evaluations")
                chk.count("traces_validated_against_impl")
                d2 = int(round(delta * 2))
                if _ok(beh, "recOK", d2) and _ok(beh, "riseOK", d2):
                    chk.count("distinct_nontrivial")
                    chk.sample({"events": [(e["type"], e["n"]) for e in beh["ev"]], "dt": dt, "grid_step": delta,
                                "zone": zone, "record": beh["rec"]})
                elif _ok(beh, "recOK", d2) or _ok(beh, "riseOK", d2):
                    chk.count("one_curve_assemblable")
                if probs:
                    chk.violation("workflow on planted behaviour %s (dt %d, grid %g, %s, %d level readings per "
                                  "step): %s" % ([(e["type"], e["n"]) for e in beh["ev"]], dt, delta, zone, sub,
                                                 "; ".join(probs)),
                        {"kind": "hydro", "beh": beh, "dt": dt, "delta": delta, "zone": zone, "e0": e0,
                         "thr": list(thr), "sub": sub, "detail": probs})


def replay_file(chk, rp):
    wd = workdir("rp")
    try:
        wf, outc = run_workflow(rp["beh"], rp["dt"], rp["zone"], rp["e0"], rp["delta"], wd, "rp",
                                thr=tuple(rp.get("thr", (1.0, 1.0))), sub=rp.get("sub", 1))
        probs = judge_c06(rp["beh"], wf, outc, rp["delta"])
    finally:
        rm(wd)
    print("replay:", probs)
    chk.count("evaluations"); chk.count("distinct_nontrivial", 2); chk.count("traces_validated_against_impl")
    chk.sample(rp["beh"]["ev"])
    if probs:
        chk.violation("replayed: " + "; ".join(probs), rp)
