"""bin/check entry point."""
import argparse
import json
import os
import sys
import traceback

from .common import Check, MachineryError, EXIT_MACHINERY


def registry():
    from . import checks_classify
    reg = {}
    reg.update(checks_classify.REGISTRY)
    for modname in ("checks_load", "checks_curves", "checks_hydro", "checks_txn",
                    "checks_hydraulics", "checks_pest", "ext_checks", "testtrace", "plot_checks"):
        try:
            mod = __import__("harness." + modname, fromlist=["REGISTRY"])
        except ModuleNotFoundError as e:
            if modname in str(e):
                continue
            raise
        reg.update(mod.REGISTRY)
    return reg


def main(argv=None):
    ap = argparse.ArgumentParser()
    ap.add_argument("prop")
    ap.add_argument("--tier", default=os.environ.get("VERIF_TIER", "quick"),
                    choices=["quick", "thorough"])
    ap.add_argument("--replay")
    ap.add_argument("--selftest", action="store_true")
    args = ap.parse_args(argv)
    reg = registry()
    if args.prop not in reg:
        print("no check registered for %s" % args.prop)
        return EXIT_MACHINERY
    entry = reg[args.prop]
    chk = Check(args.prop, args.tier, level=entry.get("level", "model_checking"))
    try:
        if args.replay:
            with open(args.replay) as f:
                rp = json.load(f)
            entry["replay"](chk, rp)
            return chk.finish(name="replay-" + args.prop)      # a replay does not overwrite the check's evidence
        elif args.selftest:
            return entry["selftest"](chk)
        else:
            entry["run"](chk, args.tier)
        return chk.finish()
    except MachineryError as e:
        print("MACHINERY FAILURE (%s): %s" % (args.prop, e))
        return EXIT_MACHINERY
    except Exception:  # noqa
        traceback.print_exc()
        print("MACHINERY FAILURE (%s): unexpected exception in the harness" % args.prop)
        return EXIT_MACHINERY


if __name__ == "__main__":
    sys.exit(main())
