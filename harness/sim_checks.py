"""C17 / C18: function-level replay (hydraulics_checks) plus the CLI level:
`spowtd simulate rise|recession` on Hydro.tla datasets with polynomial
parameter files, judged by TLC (TraceSim.tla)."""
import json
import multiprocessing as mp
import os
import random

import numpy as np
import yaml

from . import tlc
from . import present as P
from . import hydro_checks as HY
from . import hydraulics_checks as HC
from .common import MachineryError, seed, workdir, rm

ET_UNIT = 64          # ET integers per mm/h
K = 100
KU = 10000

POLYS = [([40, 1, 0, 0], 400), ([5000, -140, 1, 0], 2000)]


def et_pattern(beh, pres, rec):
    """ET per absolute sample index (integers / 64 mm/h): inside every planted recession interval the
    first step is high, the second low, the rest and the step at the last sample equal the mean, so
    that 'time-average over the steps of the intervals' is the same number whether or not the step
    starting at an interval's last sample is counted; elsewhere a clearly different value"""
    starts, total = pres.layout(rec)
    et = {}
    m, d = 8, 2
    for i in range(-2, total + 3):
        et[i] = m + 5
    for k, pl in enumerate(beh["planted"]):
        for a, z in pl["rec"]:
            a0, z0 = starts[k] + a - 1, starts[k] + z - 1
            n = z0 - a0
            for i in range(a0, z0 + 1):
                et[i] = m
            if n >= 2:
                et[a0], et[a0 + 1] = m + d, m - d
    return et


PEAT_T = {"Ksmacz0": 9.0, "alpha": 2, "zeta_max_cm": 1000.0}      # m2/s; about 8 m2/d at the datasets' levels
PEAT_SY = {"sd": 0.162, "theta_s": 0.88, "b": 7.4, "psi_s": -0.024}


def peat_T_m2_d(z_mm):
    """PEATCLSM transmissivity (Apers et al. 2022, eqn 3) in m2/d, the unit the water balance needs"""
    return PEAT_T["Ksmacz0"] * (PEAT_T["zeta_max_cm"] - z_mm / 10.0) ** (1 - PEAT_T["alpha"]) / (
        100.0 * (PEAT_T["alpha"] - 1)) * 86400.0


def param_yaml(poly, sydiv, klo, khi, tlo, tmin, mix=0):
    """mix 0: both sections splines; 1: spline specific yield with PEATCLSM transmissivity; 2: the converse"""
    doc = yaml.safe_load(_param_yaml(poly, sydiv, klo, khi, tlo, tmin))
    if mix == 1:
        doc["transmissivity"] = dict(PEAT_T, type="peatclsm")
    elif mix == 2:
        doc["specific_yield"] = dict(PEAT_SY, type="peatclsm")
    return yaml.safe_dump(doc)


def _param_yaml(poly, sydiv, klo, khi, tlo, tmin):
    ks = list(range(klo, khi + 1, max(1, (khi - klo) // 6)))
    if ks[-1] != khi:
        ks.append(khi)
    while len(ks) < 4:
        ks = sorted(set(ks) | {klo + 1, khi - 1})
    vals = [HC.poly(poly, k) / float(sydiv) for k in ks]
    return yaml.safe_dump({
        "specific_yield": {"type": "spline", "zeta_knots_mm": [float(k) for k in ks], "sy_knots": vals},
        "transmissivity": {"type": "spline", "zeta_knots_mm": [float(tlo), float(tlo + 400)],
                           "K_knots_km_d": [0.5, 64.0], "minimum_transmissivity_m2_d": float(tmin)}})


def parse_rows(text):
    doc = yaml.safe_load(text)
    return doc[0], doc[1:]


def one_dataset(args):
    idx, beh, which = args
    wd = workdir("sim")
    cases, problems = [], []
    try:
        dt = [1800, 3600, 3000][idx % 3]      # 50 min: a day is not a whole number of steps
        poly, sydiv = POLYS[idx % 2]
        curvature = [0.0, 250.0][(idx // 2) % 2]
        mix = [1, 2, 0][(idx // 4) % 3] if curvature else 0      # sections of different types: units of T
        tmin = 8.0
        pres, rec = HY.presentation(beh, dt, "UTC", P.epoch_of(2015, 9, 1))
        et = et_pattern(beh, pres, rec)
        zero_et = bool(curvature) and idx % 8 == 2
        if zero_et:
            # no evapotranspiration during any recession (all of it falls on storm steps, gaps and margins):
            # the average the simulation must use is exactly 0, the record's own mean is not
            for k, pl in enumerate(beh["planted"]):
                starts, _ = pres.layout(rec)
                for a, z in pl["rec"]:
                    for i in range(a, z + 1):
                        et[starts[k] + i - 1] = 0
        delta = [1.0, 0.5, 1.0, 0.5, 0.5][idx % 5]      # a fractional grid step: levels are not whole millimetres
        wf, outc = HY.run_workflow(beh, dt, "UTC", P.epoch_of(2015, 9, 1), delta, wd, "s%d" % idx,
                                   et_of=lambda i: et.get(i, 13) / float(ET_UNIT))
        ident = "beh%d dt%d poly%s curvature %g%s%s" % (idx, dt, poly, curvature, " ET 0 in recessions" if zero_et else "",
                                                      ["", " Sy spline / T PEATCLSM", " Sy PEATCLSM / T spline"][mix])
        if not (outc.get("rise") and outc["rise"].ok and outc.get("recession") and outc["recession"].ok):
            return idx, [], [(ident, "dataset preparation failed: %s" % {k: v.describe() for k, v in outc.items()}, None)]
        o = wf.run("set-curvature", repr(curvature))
        if not o.ok:
            return idx, [], [(ident, "set-curvature failed: " + o.describe(), None)]
        rise_view = wf.q("SELECT zeta_mm, mean_crossing_depth_mm FROM average_rising_depth ORDER BY zeta_mm")
        rec_view = wf.q("SELECT zeta_mm, elapsed_time_s FROM average_recession_time ORDER BY zeta_mm")
        zmin = min(rise_view[0][0], rec_view[0][0])
        zmax = max(rise_view[-1][0], rec_view[-1][0])
        klo, khi = int(zmin) + 3, int(zmax) - 2          # knot range narrower than the curves: clamping is exercised
        if khi - klo < 6:
            klo, khi = int(zmin) - 4, int(zmax) + 4
        ppath = os.path.join(wd, "p%d.yml" % idx)
        with open(ppath, "w") as f:
            f.write(param_yaml(poly, sydiv, klo, khi, int(zmax) + 60, tmin, mix))
        before = wf.dump()
        outs = {}
        for name, argv in (("rise", ["simulate", "rise", wf.db, ppath]),
                           ("rise_obs", ["simulate", "rise", wf.db, ppath, "--observations"]),
                           ("rec", ["simulate", "recession", wf.db, ppath]),
                           ("rec_obs", ["simulate", "recession", wf.db, ppath, "--observations"])):
            opath = os.path.join(wd, "o%d_%s.yml" % (idx, name))
            o = P.cli(argv + ["-o", opath])
            if not o.ok:
                problems.append((ident, "`%s` failed: %s" % (" ".join(argv[:2]), o.describe()), name))
                continue
            outs[name] = open(opath).read()
        if wf.dump() != before:
            problems.append((ident, "a simulate command changed the dataset", "readonly"))
        fx = lambda v: int(round(float(v) * K))
        lv2 = lambda z: int(round(2 * float(z)))
        if "rise" in outs and "rise_obs" in outs and which in ("C17", "both") and mix != 2:
            head, rows = parse_rows(outs["rise"])
            obs = yaml.safe_load(outs["rise_obs"])
            if head != ["Water level, mm", "Measured storage, mm", "Simulated storage, mm"]:
                problems.append((ident, "unexpected header of simulate rise: %r" % (head,), "rise"))
            cases.append({"id": ident + " rise", "kind": "rise", "poly": poly, "SyDiv": sydiv, "lo2": 2 * klo, "hi2": 2 * khi,
                          "K": K, "tol": 2, "rows": [[lv2(r[0]), fx(r[1]), fx(r[2])] for r in rows],
                          "view": [[lv2(z), fx(v)] for z, v in rise_view], "obs": [fx(v) for v in obs]})
        if "rec" in outs and "rec_obs" in outs and which in ("C18", "both"):
            head, rows = parse_rows(outs["rec"])
            obs = yaml.safe_load(outs["rec_obs"])
            if head != ["Water level, mm", "Measured elapsed time, d", "Simulated elapsed time, d"]:
                problems.append((ident, "unexpected header of simulate recession: %r" % (head,), "rec"))
            # -dW/dt per consecutive pair: W from the real rise simulator on the recession levels
            import spowtd.simulate_rise as sr
            import spowtd.specific_yield as sy_mod
            sy = sy_mod.create_specific_yield_function(yaml.safe_load(open(ppath))["specific_yield"])
            levels = np.array([float(r[0]) for r in rows], dtype=float)
            t = np.array([float(r[2]) for r in rows], dtype=float)
            used = []
            if len(levels) >= 2 and (np.diff(levels) < 0).all():
                W = sr.compute_rise_curve(sy, levels[::-1].copy(), 0.0)[::-1]
                for k in range(len(levels) - 1):
                    dtk = t[k + 1] - t[k]
                    used.append(int(round(-(W[k + 1] - W[k]) / dtk * KU)) if dtk != 0 else 0)
            starts, total = pres.layout(rec)
            members = wf.q("SELECT ri.start_epoch, zi.thru_epoch FROM recession_interval ri JOIN zeta_interval zi "
                           "ON zi.start_epoch = ri.start_epoch")
            ivs = [[(a - pres.e0) // dt, (z - pres.e0) // dt] for a, z in members]
            etseq = [et.get(i, 13) for i in range(0, total + 2)]
            # TLC's integers are 32 bits: a rate far outside anything the water balance allows is recorded
            # at the bound (it is rejected there just the same)
            count = max(1, sum(z - a for a, z in ivs))
            bound = 2 * 10**9 // (ET_UNIT * count) - int(abs(curvature) * 1e-3 * 10 * KU) - 1
            used = [max(-bound, min(bound, u)) for u in used]
            cases.append({"id": ident + " recession", "kind": "recession", "K": K * 10, "tol": 2,
                          "rows": [[lv2(r[0]), int(round(float(r[1]) * K * 10)), int(round(float(r[2]) * K * 10))] for r in rows],
                          "view": [[lv2(z), int(round(v / 86400.0 * K * 10))] for z, v in rec_view],
                          "obs": [int(round(float(v) * K * 10)) for v in obs],
                          "used": used, "KU": KU, "tolU": 20, "EtUnit": ET_UNIT, "et": etseq, "intervals": ivs,
                          "extra": int(round(curvature * 1e-3 * tmin * KU)),
                          # per step: curvature x T at the middle of the cell (T varies by 1e-4 over a cell)
                          "extras": [int(round(curvature * 1e-3 * (peat_T_m2_d((levels[k] + levels[k + 1]) / 2.0)
                                                                   if mix == 1 else tmin) * KU))
                                     for k in range(len(used))]})
        wf.cleanup()
    finally:
        rm(wd)
    return idx, cases, problems


def cli_level(chk, tier, which):
    q = tier == "quick"
    behs = HY.behaviours(chk, "MCHydro simulate depth 14 (datasets for simulate)",
                         HY.hydro_consts("TruthA", 14, "{14}", start="{2, 4, 7}", max_gap=1, force="TRUE"),
                         simulate="num=%d" % (60 if q else 400), workers=1)
    behs = [b for b in behs if HY._ok(b, "recOK", 2) and HY._ok(b, "riseOK", 2)][:12 if q else 120]
    if not behs:
        raise MachineryError("no behaviour with both curves")
    jobs = [(i, b, which) for i, b in enumerate(behs)]
    cases = []
    with mp.Pool(12) as pool:
        for idx, cs, problems in pool.imap_unordered(one_dataset, jobs):
            chk.count("evaluations")
            for ident, msg, what in problems:
                if what in (None, "readonly") or (which == "C17" and what.startswith("rise")) or (which == "C18" and what.startswith("rec")):
                    chk.violation("%s: %s" % (ident, msg), {"kind": "sim_cli", "case": ident, "detail": msg,
                                                            "behaviour": behs[idx]["ev"]})
            cases += cs
    wd = workdir("tsim")
    try:
        path = os.path.join(wd, "cases.json")
        json.dump(cases, open(path, "w"))
        res = tlc.run("TraceSim", "SPECIFICATION Spec\nPOSTCONDITION AllConsumed\nCHECK_DEADLOCK FALSE\n", workers=1,
                      env={"TRACE_FILE": path}, timeout=1200)
    finally:
        rm(wd)
    chk.add_tlc(res, "TraceSim on %d CLI outputs" % len(cases))
    if not res["ok"] or res["distinct"] != len(cases) + 1:
        raise MachineryError("TraceSim did not consume all cases: %s\n%s" % (res["error"][:800], res["tail"][-400:]))
    by = {c["id"]: c for c in cases}
    for c in cases:
        chk.count("traces_validated_against_impl")
        if len(c["rows"]) >= 3:
            chk.count("distinct_nontrivial")
    if cases:
        c = cases[0]
        chk.sample({"cli_case": c["id"], "rows_fixed_point": c["rows"][:4], "view": c["view"][:4]})
    seen = set()
    for f in res["fails"]:
        if not f["clause"].startswith(which) or (f["id"], f["clause"]) in seen:
            continue
        seen.add((f["id"], f["clause"]))
        c = by[f["id"]]
        key = None
        chk.violation("TLC rejects the output of simulate for %s: %s (item %s; rows %s)" % (
            f["id"], f["clause"], f["stretch"], c["rows"][:3]),
            {"kind": "sim_trace", "case": c, "clause": f["clause"], "key": key})


def c17(chk, tier):
    q = tier == "quick"
    chk.cov["rule"] = (
        "A: TLC enumerates polynomial specific yields x knot ranges x increasing level grids (inside, straddling, "
        "beyond the knots) with exact cumulative integrals (DifferencesAreIntegrals, MonotoneIfNonNegative as "
        "invariants); each is replayed into the real compute_rise_curve: differences = integrals, mean as requested "
        "(two means), monotone when Sy >= 0. B: random spline and PEATCLSM parameter sets: refinement invariance and "
        "monotonicity judged by TraceSpline.tla; CLI: `simulate rise` (table and --observations) on Hydro.tla datasets "
        "with polynomial parameter files whose knot range is narrower than the curve, judged by TraceSim.tla: levels "
        "= the measured curve's, ascending, in mm; measured = view; differences = exact integrals; means equal; "
        "dataset unchanged. non-trivial = grid reaching outside the knot range / CLI output with >= 3 levels")
    HC.grid_replay(chk, tier, "C17")
    rng = random.Random(seed() + 17)
    cases = HC.random_curve_cases(rng, 80 if q else 800, "C17")
    fails = HC.validate_trace(chk, cases, "TraceSpline on %d random rise curves" % len(cases))
    chk.count("traces_validated_against_impl", len(cases))
    HC.report_fails(chk, fails, cases, "C17")
    cli_level(chk, tier, "C17")


def c18(chk, tier):
    q = tier == "quick"
    chk.cov["rule"] = (
        "A: on TLC's (polynomial, knots, grid) cases the real compute_recession_curve is replayed in the two exactly "
        "solvable regimes (curvature 0; all levels below the lowest transmissivity knot so that T = T_min): "
        "dt = -(integral of Sy)/(ET + curvature x T), mean as requested, reversal of the grid. B: random spline / "
        "PEATCLSM parameters: refinement and reversal invariance, time increasing as the level falls, judged by "
        "TraceSpline.tla; CLI: `simulate recession` on Hydro.tla datasets with time-varying ET (first-step ET differs "
        "from the interval average; counting or not the step at an interval's last sample gives the same average), "
        "curvature 0 and 250, judged by TraceSim.tla: levels in mm from highest to lowest, measured = view/86400, "
        "-dW/dt per level pair = 24 x time-average ET over all steps of the member intervals + curvature x T_min. "
        "non-trivial = CLI output with >= 3 levels / grid outside the knots")
    HC.grid_replay(chk, tier, "C18")
    rng = random.Random(seed() + 18)
    cases = HC.random_curve_cases(rng, 24 if q else 800, "C18")
    fails = HC.validate_trace(chk, cases, "TraceSpline on %d random recession curves" % len(cases))
    chk.count("traces_validated_against_impl", len(cases))
    HC.report_fails(chk, fails, cases, "C18")
    cli_level(chk, tier, "C18")
