"""C14, C15, C17, C18 at function level: exact cases enumerated by TLC
(MCHydraulics.tla) replayed into the real spline / specific-yield /
transmissivity / simulate functions; random real parameter sets recorded in
fixed point and judged by TLC (TraceSpline.tla)."""
import json
import math
import multiprocessing as mp
import os
import random
from fractions import Fraction

import warnings

import numpy as np

warnings.filterwarnings("ignore")

from . import tlc
from .common import MachineryError, seed, workdir, rm, import_repo

import_repo()

BASE = {"C0s": "{1, 3}", "C1s": "<- CoefA", "C2s": "<- CoefB", "C3s": "<- CoefB", "Los": "{0}", "His": "{3, 5}",
        "Beyond": "2", "GridLens": "{3}", "ZSets": "<- ZSetsA", "Exps": "<- ExpsA", "Emit": "TRUE"}
INVS = {"sy": ["AlgorithmEqualsArea", "Additive", "Antisymmetric", "ConstantOutside"],
        "grid": ["DifferencesAreIntegrals", "MonotoneIfNonNegative"],
        "t": ["TMonotone", "TFloor"]}


def run_mc(chk, mode, label, **over):
    consts = dict(BASE)
    consts["Mode"] = '"%s"' % mode
    consts.update(over)
    res = tlc.run("MCHydraulics", tlc.cfg_text(consts, spec="Spec", invariants=INVS[mode] + ["EmitInv"]), workers=12,
                  invariants=INVS[mode], timeout=3000)
    chk.add_tlc(res, label)
    if res.get("violated"):
        chk.violation("Hydraulics.tla violates its own invariant (%s): %s" % (label, res["error"][:500]), {"kind": "tlc"})
        return []
    if not res["emits"]:
        raise MachineryError("MCHydraulics emitted nothing in mode " + mode)
    return res["emits"]


def poly(c, x):
    return c[0] + c[1] * x + c[2] * x * x + c[3] * x ** 3


def make_sy(c, lo, hi, sigma, knots=None):
    import spowtd.specific_yield as sy_mod
    ks = knots or list(range(lo, hi + 1))
    return sy_mod.create_specific_yield_function(
        {"type": "spline", "zeta_knots_mm": [float(k * sigma) for k in ks], "sy_knots": [float(poly(c, k)) for k in ks]})


def knot_choices(lo, hi):
    full = list(range(lo, hi + 1))
    out = [full]
    if hi - lo >= 4:
        out.append([lo, lo + 1, hi - 2, hi - 1, hi])     # non-uniform
    return out


def _sy_worker(batch):
    out = []
    for (c, lo, hi), cases in batch:
        for sigma in (1.0, 10.0):
            for ks in knot_choices(lo, hi):
                try:
                    sy = make_sy(c, lo, hi, sigma, ks)
                except Exception as e:  # noqa
                    out.append(((c, lo, hi), None, sigma, ks, "constructor raised %r" % (e,)))
                    continue
                scale = max(1.0, max(abs(poly(c, k)) for k in range(lo - 2, hi + 3)))
                for k in ks:
                    v = float(sy(k * sigma))
                    if abs(v - poly(c, k)) > 1e-9 * scale:
                        out.append(((c, lo, hi), None, sigma, ks, "value at knot %s is %r, knot value %r" % (k, v, poly(c, k))))
                for case in cases:
                    a, b = case["a2"] / 2.0 * sigma, case["b2"] / 2.0 * sigma
                    msg = None
                    try:
                        va, vb = float(sy(a)), float(sy(b))
                        got = float(sy.integrate(a, b))
                    except Exception as e:  # noqa
                        out.append(((c, lo, hi), case, sigma, ks, "raised %r" % (e,)))
                        continue
                    want = case["area192"] / 192.0 * sigma
                    if abs(va - case["va8"] / 8.0) > 1e-9 * scale or abs(vb - case["vb8"] / 8.0) > 1e-9 * scale:
                        msg = "Sy(%g)=%r, Sy(%g)=%r; the clamped function gives %r, %r" % (
                            a, va, b, vb, case["va8"] / 8.0, case["vb8"] / 8.0)
                    elif abs(got - want) > 1e-9 * max(1.0, abs(want), scale * sigma * (hi - lo + 4)):
                        msg = "integrate(%g, %g) = %.12g, area under the function = %.12g" % (a, b, got, want)
                    out.append(((c, lo, hi), case, sigma, ks, msg))
    return out


def random_spline_case(rng, cid):
    """arbitrary knots / values, evaluated and integrated by the real code, in fixed point"""
    import spowtd.specific_yield as sy_mod
    n = rng.randint(4, 9)
    x = [rng.randint(-4000, 0)]                             # tenths of mm; spacings 5 .. 120 mm
    for _ in range(n - 1):
        x.append(x[-1] + rng.randint(50, 1200))
    kx = [v / 10.0 for v in x]
    kv = [round(rng.uniform(0.02, 0.9), 4) for _ in range(n)]
    sy = sy_mod.create_specific_yield_function({"type": "spline", "zeta_knots_mm": kx, "sy_knots": kv})
    V = 10000
    fx = lambda v: int(round(float(v) * V))
    below = [fx(sy(kx[0] - d)) for d in (0.1, 5.0, 300.0)]
    above = [fx(sy(kx[-1] + d)) for d in (0.1, 5.0, 300.0)]
    # the same for levels given as integers (a Python int, an integer array): constant beyond the end knots
    # whatever the type of the argument
    ilo, ihi = int(math.floor(kx[0])) - 3, int(math.ceil(kx[-1])) + 3
    below += [fx(sy(ilo)), fx(np.asarray(sy(np.array([ilo, ilo - 40])))[1])]
    above += [fx(sy(ihi)), fx(np.asarray(sy(np.array([ihi, ihi + 40])))[1])]
    triples = []
    span = kx[-1] - kx[0]
    I = 100      # integrals in units of 0.01 mm
    for _ in range(8):
        a, m, b = [round(rng.uniform(kx[0] - 0.3 * span, kx[-1] + 0.3 * span), 1) for _ in range(3)]
        triples.append({"iab": int(round(sy.integrate(a, b) * I)), "iam": int(round(sy.integrate(a, m) * I)),
                        "imb": int(round(sy.integrate(m, b) * I)), "iba": int(round(sy.integrate(b, a) * I))})
    panels = []
    for i in range(n - 1):
        h10 = x[i + 1] - x[i]
        a, b = kx[i], kx[i + 1]
        # 6 * I * 1e4 = (h * 10) * (f * 1e3) summed  (products must stay below 2^31)
        f3 = lambda v: int(round(float(v) * 1000))
        panels.append({"h": h10, "fa": f3(sy(a)), "fm": f3(sy((a + b) / 2.0)), "fb": f3(sy(b)),
                       "i": int(round(sy.integrate(a, b) * 10000)), "tol": 4 * h10 + 12})
    if any(abs(p[k]) > 2 * 10**7 for p in panels for k in ("fa", "fm", "fb", "i")) or \
            any(abs(v) > 3 * 10**8 for t in triples for v in t.values()):
        return None       # wild overshoot between knots: numbers beyond the fixed-point range
    return {"id": "sy%d" % cid, "kind": "sy", "kv": [fx(v) for v in kv], "ev": [fx(sy(k)) for k in kx],
            "below": below, "above": above, "tolv": 1, "toli": 3, "triples": triples, "panels": panels,
            "knots_mm": kx}


def validate_trace(chk, cases, label):
    if not cases:
        return []
    wd = workdir("tspl")
    try:
        path = os.path.join(wd, "cases.json")
        with open(path, "w") as f:
            json.dump(cases, f)
        res = tlc.run("TraceSpline", "SPECIFICATION Spec\nPOSTCONDITION AllConsumed\nCHECK_DEADLOCK FALSE\n", workers=1,
                      env={"TRACE_FILE": path}, timeout=1200)
    finally:
        rm(wd)
    chk.add_tlc(res, label)
    if not res["ok"] or res["distinct"] != len(cases) + 1:
        raise MachineryError("TraceSpline did not consume all cases: %s\n%s" % (res["error"][:800], res["tail"][-500:]))
    return res["fails"]


def report_fails(chk, fails, cases, prefix):
    by = {c["id"]: c for c in cases}
    seen = set()
    for f in fails:
        if not f["clause"].startswith(prefix) or (f["id"], f["clause"]) in seen:
            continue
        seen.add((f["id"], f["clause"]))
        chk.violation("TLC rejects recorded values of %s: %s (item %s)" % (f["id"], f["clause"], f["stretch"]),
                      {"kind": "hydraulics_trace", "case": by[f["id"]], "clause": f["clause"]})


def c14(chk, tier):
    q = tier == "quick"
    chk.cov["rule"] = (
        "A: TLC enumerates every cubic polynomial of the coefficient sets, knot ranges lo..hi and every pair of "
        "integration limits (and split point) on the half-integer lattice reaching 2 units beyond both ends, "
        "checking that the three-branch transcription of Spline.integrate equals the declarative area under the "
        "clamped function, additivity, antisymmetry, constancy outside; each (polynomial, knots, a, b) is replayed "
        "into the real SplineSpecificYield (uniform and non-uniform knot subsets, abscissa scales 1 and 10): values "
        "at knots and at the limits, integrate(a, b) against the exact area (1e-9). B: random real knot sets: "
        "recorded evaluations / integrals judged by TraceSpline.tla (through knots, constant outside, additive, "
        "antisymmetric, Simpson on knot panels). non-trivial = a limit outside the knot range")
    emits = run_mc(chk, "sy", "MCHydraulics sy", **({} if q else {"His": "{3, 4, 6}", "C0s": "{1, 2, 5}"}))
    groups = {}
    for e in emits:
        groups.setdefault((tuple(e["c"]), e["lo"], e["hi"]), []).append(e)
    items = sorted(groups.items())
    random.Random(seed()).shuffle(items)
    if q:
        items = items[:40]
    jobs = [items[i:i + 3] for i in range(0, len(items), 3)]
    with mp.Pool(12) as pool:
        for out in pool.imap_unordered(_sy_worker, jobs):
            for key, case, sigma, ks, msg in out:
                chk.count("evaluations")
                chk.count("traces_validated_against_impl")
                if case and (case["a2"] < 2 * key[1] or case["b2"] > 2 * key[2] or case["a2"] > 2 * key[2] or case["b2"] < 2 * key[1]):
                    chk.count("distinct_nontrivial")
                    if case["a2"] > case["b2"]:
                        chk.sample({"polynomial_coefficients": key[0], "knots": ks, "scale": sigma,
                                    "a": case["a2"] / 2.0 * sigma, "b": case["b2"] / 2.0 * sigma,
                                    "exact_area": case["area192"] / 192.0 * sigma})
                if msg:
                    chk.violation("spline specific yield, polynomial %s, knots %s (x%s): %s" % (list(key[0]), ks, sigma, msg),
                                  {"kind": "sy", "c": list(key[0]), "lo": key[1], "hi": key[2], "case": case,
                                   "sigma": sigma, "knots": ks, "detail": msg})
    rng = random.Random(seed() + 14)
    cases = [c for c in (random_spline_case(rng, i) for i in range(200 if q else 3000)) if c]
    fails = validate_trace(chk, cases, "TraceSpline on %d random splines" % len(cases))
    chk.count("traces_validated_against_impl", len(cases))
    report_fails(chk, fails, cases, "C14")


# ---------------------------------------------------------------------------
def make_T(z, e, tmin, sigma):
    import spowtd.transmissivity as tm
    return tm.create_transmissivity_function(
        {"type": "spline", "zeta_knots_mm": [float(v * sigma) for v in z], "K_knots_km_d": [2.0 ** k for k in e],
         "minimum_transmissivity_m2_d": tmin})


def _t_worker(batch):
    out = []
    for (z, e), cases in batch:
        for sigma, tmin in ((1.0, 7), (25.0, 0.125), (1.0, 3.5)):      # 7: an integer, as YAML gives for `7`
            try:
                T = make_T(z, e, tmin, sigma)
            except Exception as ex:  # noqa
                out.append(((z, e), None, "constructor raised %r" % (ex,)))
                continue
            xs = sorted(c["x"] for c in cases)
            try:
                arr = T(np.array([x * sigma for x in xs], dtype=float))
            except Exception as ex:  # noqa
                out.append(((z, e), None, "array call raised %r" % (ex,)))
                continue
            prev = None
            for case in sorted(cases, key=lambda c: c["x"]):
                x = case["x"]
                A, B = case["ab"]
                want = tmin + (A + B / math.log(2.0)) / case["scale"] * sigma
                msg = None
                try:
                    got = float(T(float(x * sigma)))
                except Exception as ex:  # noqa
                    out.append(((z, e), case, "T(%g) raised %r" % (x * sigma, ex)))
                    continue
                if abs(got - want) > 1e-6 * max(1.0, abs(want)):
                    msg = "T(%g) = %.10g, minimum + integral of conductivity = %.10g" % (x * sigma, got, want)
                elif got != float(arr[xs.index(x)]):
                    msg = "T(%g): scalar %r, array %r" % (x * sigma, got, float(arr[xs.index(x)]))
                elif prev is not None and got < prev - 1e-9 * max(1.0, abs(prev)):
                    msg = "T decreases from %r to %r at %g" % (prev, got, x * sigma)
                prev = got
                out.append(((z, e), case, msg))
            # the array argument in no particular order and with a repeated level: element i is T(level i)
            xs2 = xs[1::2] + xs[::2] + xs[:1]
            try:
                arr2 = T(np.array([x * sigma for x in xs2], dtype=float))
                bad = [x for i, x in enumerate(xs2)
                       if len(arr2) != len(xs2) or float(arr2[i]) != float(T(float(x * sigma)))]
                if bad:
                    out.append(((z, e), None, "T(array %s) is not element-wise T(scalar): differs at %s" % (
                        [x * sigma for x in xs2], [x * sigma for x in bad][:4])))
            except Exception as ex:  # noqa
                out.append(((z, e), None, "array call with unsorted / repeated levels %s raised %r" % (xs2, ex)))
            lowest = float(T(float(z[0] * sigma)))
            below = float(T(float(z[0] * sigma - 3.0)))
            if lowest != tmin or below != tmin:
                out.append(((z, e), None, "T at / below the lowest knot is %r / %r, minimum %r" % (lowest, below, tmin)))
            # continuity at interior knots
            for k in z[1:-1]:
                lo_, hi_ = float(T(k * sigma - 1e-7)), float(T(k * sigma + 1e-7))
                if abs(hi_ - lo_) > 1e-5 * max(1.0, abs(lo_)):
                    out.append(((z, e), None, "T jumps at knot %g: %r -> %r" % (k * sigma, lo_, hi_)))
    return out


def random_T_case(rng, cid):
    import spowtd.transmissivity as tm
    n = rng.randint(2, 6)
    if cid % 2:
        # a knot exactly at level 0 with the conductivity peaking there (a long gentle segment below, a short
        # steep one above): the integrand has a sharp kink at a break point whose VALUE is zero
        n = max(n, 3)
        z = sorted(rng.sample(range(-3000, -100), 1)) + [0] + sorted(rng.sample(range(5, 400), n - 2))
        K = [10 ** rng.uniform(-4, -1), 10 ** rng.uniform(1, 4)] + [10 ** rng.uniform(-5, -1) for _ in range(n - 2)]
    else:
        z = sorted(rng.sample(range(-3000, 3000), n))
        K = [10 ** rng.uniform(-4, 4) for _ in range(n)]
    tmin = 10 ** rng.uniform(-2, 2)
    T = tm.create_transmissivity_function({"type": "spline", "zeta_knots_mm": [float(v) for v in z], "K_knots_km_d": K,
                                           "minimum_transmissivity_m2_d": tmin})
    xs = sorted({float(z[0] - 50), float(z[0])} | {round(rng.uniform(z[0], z[-1]), 2) for _ in range(12)} | {float(z[-1])}
                | ({round(z[1] + (z[2] - z[1]) * k / 12.0, 3) for k in range(13)} if n >= 3 else set()))
    vals = [float(T(x)) for x in xs]
    arr = T(np.array(xs))
    top = max(abs(v) for v in vals)
    S = 10 ** (7 - max(0, int(math.floor(math.log10(max(top, 1e-9)))) + 1))      # 7 significant digits
    fx = lambda v: int(round(v * S))
    # segment identity: consecutive levels inside one log-linear segment
    incr = []
    lnK = [math.log(k) for k in K]
    for (x1, v1), (x2, v2) in zip(zip(xs, vals), zip(xs[1:], vals[1:])):
        for a in range(n - 1):
            if z[a] <= x1 and x2 <= z[a + 1]:
                s_ = (lnK[a + 1] - lnK[a]) / (z[a + 1] - z[a])
                k1 = math.exp(lnK[a] + s_ * (x1 - z[a]))
                k2 = math.exp(lnK[a] + s_ * (x2 - z[a]))
                want = (k2 - k1) / s_ if abs(s_) > 1e-12 else k1 * (x2 - x1)
                incr.append([fx(v2 - v1), fx(want)])
    return {"id": "T%d" % cid, "kind": "mono", "prop": "C15", "v": [fx(v) for v in vals], "tol": 2, "nfloor": 2,
            "floor": fx(tmin), "pairs": [[float(a).hex(), float(b).hex()] for a, b in zip(vals, arr)],
            "incr": incr, "tolI": 4, "knots": z, "K": K}


def c15(chk, tier):
    q = tier == "quick"
    chk.cov["rule"] = (
        "A: TLC enumerates knot sets (2-4 knots), conductivity exponent vectors (K = 2^e, spanning up to 14 binary "
        "orders) and every level at which the exponent is integral; T - Tmin is computed exactly as A + B / ln 2 "
        "(flat segments -> A, sloping -> B); invariants: floor at the lowest knot, both parts non-decreasing; each "
        "case is replayed into the real SplineTransmissivity at two abscissa scales / minima: value (1e-6 "
        "relative), scalar = array, floor at and below the lowest knot, continuity at knots, monotone. B: random "
        "real parameters over 8 decades judged by TraceSpline.tla. non-trivial = level above a sloping segment")
    emits = run_mc(chk, "t", "MCHydraulics t", **({} if q else {"ZSets": "<- ZSetsB", "Exps": "<- ExpsB"}))
    emits += run_mc(chk, "t", "MCHydraulics t, sharp kink at a knot at level 0", ZSets="<- ZSetsSharp", Exps="<- ExpsSharp")
    groups = {}
    for e in emits:
        groups.setdefault((tuple(e["z"]), tuple(e["e"])), []).append(e)
    items = sorted(groups.items())
    jobs = [items[i:i + 8] for i in range(0, len(items), 8)]
    with mp.Pool(12) as pool:
        for out in pool.imap_unordered(_t_worker, jobs):
            for key, case, msg in out:
                chk.count("evaluations")
                chk.count("traces_validated_against_impl")
                if case and case["ab"][1] != 0:
                    chk.count("distinct_nontrivial")
                    chk.sample({"knots": key[0], "log2_K": key[1], "level": case["x"], "A_B_times_scale": case["ab"]})
                if msg:
                    chk.violation("spline transmissivity knots %s log2 K %s: %s" % (list(key[0]), list(key[1]), msg),
                                  {"kind": "T", "z": list(key[0]), "e": list(key[1]), "case": case, "detail": msg,
                                   "cases": None if case else groups[key]})
    rng = random.Random(seed() + 15)
    cases = [random_T_case(rng, i) for i in range(150 if q else 2000)]
    fails = validate_trace(chk, cases, "TraceSpline on %d random transmissivities" % len(cases))
    chk.count("traces_validated_against_impl", len(cases))
    report_fails(chk, fails, cases, "C15")


# ---------------------------------------------------------------------------
def _grid_worker(batch):
    import spowtd.simulate_rise as sr
    import spowtd.simulate_recession as srec
    out = []
    for case in batch:
        c, lo, hi = case["c"], case["lo"], case["hi"]
        for sigma in (1.0, 10.0):
            sy = make_sy(c, lo, hi, sigma)
            grid = np.array([g / 2.0 * sigma for g in case["grid2"]], dtype=float)
            cum = [v / 192.0 * sigma for v in case["cum192"]]
            scale = max(1.0, max(abs(v) for v in cum))
            msgs = {"C17": None, "C18": None}
            for mean in (0.0, 12.5):
                W = sr.compute_rise_curve(sy, grid, mean_storage_mm=mean)
                if abs(W.mean() - mean) > 1e-9 * scale:
                    msgs["C17"] = "mean of the rise curve is %r, requested %r" % (float(W.mean()), mean)
                for i in range(len(grid)):
                    if abs((W[i] - W[0]) - (cum[i] - cum[0])) > 1e-9 * scale:
                        msgs["C17"] = "W(%g) - W(%g) = %.12g, integral of specific yield = %.12g" % (
                            grid[i], grid[0], W[i] - W[0], cum[i] - cum[0])
                        break
            # the same levels given as an integer array (np.arange(...)): the curve is a function of the levels,
            # not of the dtype they come in
            if not msgs["C17"] and all(float(g).is_integer() for g in grid):
                try:
                    Wi = sr.compute_rise_curve(sy, grid.astype(int), mean_storage_mm=0.0)
                    Wf = sr.compute_rise_curve(sy, grid, mean_storage_mm=0.0)
                    if len(Wi) != len(Wf) or np.abs(np.asarray(Wi, dtype=float) - Wf).max() > 1e-9 * scale:
                        msgs["C17"] = "levels %s as an integer array give %s, as a float array %s" % (
                            [int(g) for g in grid], [float(v) for v in Wi][:4], [float(v) for v in Wf][:4])
                except Exception as e:  # noqa
                    msgs["C17"] = "compute_rise_curve on an integer level array raised %r" % (e,)
            if case["nonneg"] and not msgs["C17"]:
                W = sr.compute_rise_curve(sy, grid, 0.0)
                if (np.diff(W) < -1e-12 * scale).any():
                    msgs["C17"] = "rise curve decreases although specific yield is non-negative"
            # C18: two exactly solvable regimes (needs Sy > 0 so that the denominator never vanishes: any Sy works)
            tknots = [float((hi + 3) * sigma), float((hi + 30) * sigma)]      # grid entirely at / below the lowest T knot
            import spowtd.transmissivity as tm
            T = tm.create_transmissivity_function({"type": "spline", "zeta_knots_mm": tknots, "K_knots_km_d": [1.0, 8.0],
                                                   "minimum_transmissivity_m2_d": 4.0})
            usable = [g for g in case["grid2"] if g / 2.0 <= hi + 3]
            for et, kappa in ((2.5, 0.0), (0.0, 0.5), (1.25, 0.25)):
                denom = et + kappa * 4.0
                for mean in (0.0, 3.0):
                    try:
                        t = srec.compute_recession_curve(sy, T, grid, mean, kappa, et)
                    except Exception as e:  # noqa
                        msgs["C18"] = "compute_recession_curve raised %r" % (e,)
                        break
                    if abs(t.mean() - mean) > 1e-7 * max(1.0, scale / denom):
                        msgs["C18"] = "mean elapsed time %r, requested %r" % (float(t.mean()), mean)
                    for i in range(len(grid)):
                        want = -(cum[i] - cum[0]) / denom
                        if abs((t[i] - t[0]) - want) > 1e-7 * max(1.0, scale / denom):
                            msgs["C18"] = ("ET %g curvature term %g: t(%g) - t(%g) = %.10g d, -(integral of Sy)/(ET + "
                                           "curvature x T) = %.10g d" % (et, kappa * 4.0, grid[i], grid[0], t[i] - t[0], want))
                            break
                # reversal: descending grid gives the same values at the same levels (up to the common shift)
                if not msgs["C18"]:
                    t = srec.compute_recession_curve(sy, T, grid, 0.0, kappa, et)
                    tr = srec.compute_recession_curve(sy, T, grid[::-1].copy(), 0.0, kappa, et)[::-1]
                    if np.abs((t - t[0]) - (tr - tr[0])).max() > 1e-7 * max(1.0, scale / denom):
                        msgs["C18"] = "reversing the grid changes the values at the same levels"
            out.append((case, sigma, msgs))
    return out


def grid_replay(chk, tier, prop):
    q = tier == "quick"
    emits = run_mc(chk, "grid", "MCHydraulics grid", **({"GridLens": "{3}"} if q else
                                                           {"GridLens": "{2, 4}", "His": "{3, 4}", "C0s": "{1, 2, 5}"}))
    random.Random(seed()).shuffle(emits)
    emits = emits[:1500 if q else 20000]
    jobs = [emits[i:i + 60] for i in range(0, len(emits), 60)]
    with mp.Pool(12) as pool:
        for out in pool.imap_unordered(_grid_worker, jobs):
            for case, sigma, msgs in out:
                chk.count("evaluations")
                chk.count("traces_validated_against_impl")
                lo2, hi2 = 2 * case["lo"], 2 * case["hi"]
                if case["grid2"][0] < lo2 or case["grid2"][-1] > hi2:
                    chk.count("distinct_nontrivial")
                    chk.sample({"polynomial_coefficients": case["c"], "knot_range": [case["lo"], case["hi"]],
                                "grid": [g / 2.0 * sigma for g in case["grid2"]],
                                "exact_cumulative_integrals": [v / 192.0 * sigma for v in case["cum192"]]})
                if msgs[prop]:
                    chk.violation("polynomial %s knots %d..%d grid %s (x%s): %s" % (
                        case["c"], case["lo"], case["hi"], [g / 2.0 for g in case["grid2"]], sigma, msgs[prop]),
                        {"kind": "grid", "case": case, "sigma": sigma, "detail": msgs[prop], "prop": prop})


def _rc_worker(args):
    s, n, prop, base = args
    cs = _random_curve_cases(random.Random(s), n, prop)
    for c in cs:
        c["id"] = "%s-%d" % (c["id"], base)
    return cs


def random_curve_cases(rng, n, prop):
    """in parallel: the nested quadratures and the PEATCLSM profile are slow"""
    jobs = [(rng.randrange(10**9), 4, prop, i) for i in range(max(1, n // 4))]
    out = []
    with mp.Pool(12) as pool:
        for cs in pool.imap_unordered(_rc_worker, jobs):
            out += cs
    return out


def _random_curve_cases(rng, n, prop):
    """random real parameter sets (spline and PEATCLSM): monotone / refinement / reversal relations"""
    import spowtd.specific_yield as sy_mod
    import spowtd.transmissivity as tm
    import spowtd.simulate_rise as sr
    import spowtd.simulate_recession as srec
    cases = []
    for i in range(n):
        if i % 4 == 3:
            sy = sy_mod.create_specific_yield_function({"type": "peatclsm", "sd": rng.uniform(0.05, 0.4),
                                                        "theta_s": rng.uniform(0.6, 0.95), "b": rng.uniform(2.0, 12.0),
                                                        "psi_s": -rng.uniform(0.01, 0.3)})
            lo, hi = -700.0, 150.0
        else:
            nk = rng.randint(4, 7)
            x = sorted(rng.sample(range(-600, 200), nk))
            sy = sy_mod.create_specific_yield_function({"type": "spline", "zeta_knots_mm": [float(v) for v in x],
                                                        "sy_knots": [rng.uniform(0.05, 0.8) for _ in range(nk)]})
            lo, hi = x[0] - 100.0, x[-1] + 100.0
        coarse = sorted({round(rng.uniform(lo, hi), 1) for _ in range(6)})
        fine = sorted(set(coarse) | {round(rng.uniform(lo, hi), 1) for _ in range(7)})
        idx = [fine.index(v) for v in coarse]
        if prop == "C17":
            u = sr.compute_rise_curve(sy, np.array(coarse), 0.0)
            w = sr.compute_rise_curve(sy, np.array(fine), 5.0)[idx]
            S = 1000
            cases.append({"id": "ref%d" % i, "kind": "same", "prop": "C17", "u": [int(round(v * S)) for v in u],
                          "w": [int(round(v * S)) for v in w], "tol": 3, "grid": coarse})
            # monotone (spline through positive knots can dip below zero between knots: only PEATCLSM is >= 0 by construction)
            if i % 4 == 3:
                cases.append({"id": "mono%d" % i, "kind": "mono", "prop": "C17", "v": [int(round(v * S)) for v in w],
                              "tol": 1, "nfloor": 0, "floor": 0, "pairs": []})
        else:
            T = tm.create_transmissivity_function({"type": "spline", "zeta_knots_mm": [lo - 1.0, (lo + hi) / 2, hi + 1.0],
                                                   "K_knots_km_d": [10 ** rng.uniform(-3, 0), 10 ** rng.uniform(-1, 2),
                                                                    10 ** rng.uniform(0, 3)],
                                                   "minimum_transmissivity_m2_d": 10 ** rng.uniform(-1, 1)})
            et, kappa = rng.choice([(rng.uniform(0.5, 6.0), 0.0), (0.0, rng.uniform(0.01, 2.0)),
                                    (rng.uniform(0.5, 6.0), rng.uniform(0.01, 2.0))])
            if i % 4 != 3:
                # a cubic spline through positive knots may go negative in between; keep cases with Sy > 0 on the grid
                if min(float(sy(v)) for v in np.linspace(lo, hi, 200)) <= 0:
                    continue
            u = srec.compute_recession_curve(sy, T, np.array(coarse), 0.0, kappa, et)
            w = srec.compute_recession_curve(sy, T, np.array(fine), 2.0, kappa, et)[idx]
            r = srec.compute_recession_curve(sy, T, np.array(coarse[::-1]), 0.0, kappa, et)[::-1]
            # resolution 1e-4 of the curve's span (DESIGN 3(F)): QUADPACK's accuracy on an integrand with up to
            # 200 kinks per cell is not what this relation is about
            top = max(1e-9, float(np.abs(u - u[0]).max()))
            S = 10 ** (5 - int(math.floor(math.log10(top))) - 1)
            fx = lambda v: int(round(float(v) * S))
            cases.append({"id": "refine%d" % i, "kind": "same", "prop": "C18", "u": [fx(v) for v in u],
                          "w": [fx(v) for v in w], "tol": 5, "grid": coarse})
            cases.append({"id": "reverse%d" % i, "kind": "same", "prop": "C18", "u": [fx(v) for v in u],
                          "w": [fx(v) for v in r], "tol": 5, "grid": coarse})
            cases.append({"id": "falls%d" % i, "kind": "mono", "prop": "C18", "v": [fx(-v) for v in u], "tol": 1,
                          "nfloor": 0, "floor": 0, "pairs": []})
    return cases


def replay_file(chk, rp):
    kind = rp.get("kind")
    chk.count("evaluations"); chk.count("distinct_nontrivial", 2); chk.count("traces_validated_against_impl")
    chk.sample({k: rp[k] for k in rp if k in ("c", "lo", "hi", "z", "e", "case", "sigma")})
    if kind == "sy":
        out = _sy_worker([(((tuple(rp["c"]), rp["lo"], rp["hi"])), [rp["case"]] if rp["case"] else [])])
        for key, case, sigma, ks, msg in out:
            if msg and sigma == rp["sigma"] and ks == rp["knots"]:
                print("replay:", msg)
                chk.violation("replayed: " + msg, rp)
    elif kind == "T":
        out = _t_worker([((tuple(rp["z"]), tuple(rp["e"])), [rp["case"]] if rp["case"] else (rp.get("cases") or []))])
        for key, case, msg in out:
            if msg:
                print("replay:", msg)
                chk.violation("replayed: " + msg, rp)
    elif kind == "grid":
        for case, sigma, msgs in _grid_worker([rp["case"]]):
            if msgs[rp["prop"]] and sigma == rp["sigma"]:
                print("replay:", msgs[rp["prop"]])
                chk.violation("replayed: " + msgs[rp["prop"]], rp)
    else:
        raise SystemExit("cannot replay kind %r; re-run the check" % kind)
