"""C05 / C08: collections of pieces enumerated by TLC (MCCurves.tla), in every
presentation TLC reaches by Swap / Shift, replayed into the real
fit_offsets.get_series_time_offsets."""
import json
import multiprocessing as mp
import random
from fractions import Fraction

import numpy as np

from . import tlc
from .common import MachineryError, seed, import_repo

import_repo()
STEPS = [1.0, 0.5, 2.5]
TOL = Fraction(1, 10**9)


def run_real(coll, step, scale):
    import spowtd.fit_offsets as fo
    series = []
    for p in coll:
        t = np.array([v * scale for v in p["t"]], dtype=float)
        H = np.array([(p["top"] + p["dir"] * k) * step for k in range(len(p["t"]))], dtype=float)
        series.append((t, H))
    return fo.get_series_time_offsets(series, step)


def compare(coll, res, step, scale, what):
    """what: subset of {'members', 'relative', 'master', 'mapping'}"""
    try:
        idx, offs, mapping = run_real(coll, step, scale)
    except Exception as e:  # noqa
        if not res["judged"]:
            return None
        return "get_series_time_offsets raised %s: %s" % (type(e).__name__, e)
    if not res["judged"]:
        return None
    ids = [coll[i]["id"] for i in idx]
    diffs = []
    if "members" in what and sorted(ids) != sorted(res["members"]):
        diffs.append("pieces placed: code %s, main body %s" % (sorted(ids), sorted(res["members"])))
        return "; ".join(diffs)
    if len(set(ids)) != len(ids):
        return "a piece is placed twice: %s" % ids
    off = {i: Fraction(float(o)) for i, o in zip(ids, offs)}
    if sorted(ids) != sorted(res["members"]):
        return None          # membership is judged by C08
    anchor = min(ids)
    sc = Fraction(scale)
    if "relative" in what:
        for pid, num, den in res["relative"]:
            want = Fraction(num, den) * sc
            got = off[pid] - off[anchor]
            if abs(got - want) > TOL * max(1, abs(want), sc):
                diffs.append("offset of piece %d relative to piece %d: code %.12g, least-squares optimum %s" % (
                    pid, anchor, float(got), float(want)))
    cm = {}
    for h, lst in mapping.items():
        for i, tm in lst:
            cm[(int(h), coll[i]["id"])] = Fraction(float(tm))
    sm = {(h, pid): Fraction(t) * sc for h, pid, t in res["mapping"]}
    if "mapping" in what:
        if set(cm) != set(sm):
            diffs.append("crossings kept: code %s specification %s" % (sorted(cm), sorted(sm)))
        else:
            for k in sm:
                if abs(cm[k] - sm[k]) > TOL * max(1, abs(sm[k])):
                    diffs.append("crossing %s: code %s specification %s" % (k, float(cm[k]), float(sm[k])))
    if "master" in what and set(cm) == set(sm):
        for h, num, den in res["master"]:
            want = Fraction(num, den) * sc
            vals = [off[pid] - off[anchor] + cm[(hh, pid)] for (hh, pid) in cm if hh == h]
            got = sum(vals) / len(vals)
            if abs(got - want) > TOL * max(1, abs(want), sc):
                diffs.append("master curve at level %d: code %.12g specification %s" % (h, float(got), float(want)))
    if not diffs and "relative" in what:
        d = direct_find_offsets(coll, res, scale)
        if d:
            diffs.append(d)
    return "; ".join(diffs[:4]) if diffs else None


def direct_find_offsets(coll, res, scale):
    """find_offsets on the specification's own crossing table (kept levels of the main body), with the
    (piece, value) pairs of every level and the levels themselves in arbitrary order, pieces named by
    arbitrary increasing integers: the documented input is 'a mapping of head id to a sequence of
    (series_id, time) pairs', nothing is promised about order"""
    import spowtd.fit_offsets as fo
    rng = random.Random(len(coll) * 7919 + sum(p["top"] for p in coll))
    ids = sorted({pid for _, pid, _ in res["mapping"]})
    name = {pid: 10 * (i + 1) + 3 for i, pid in enumerate(ids)}
    levels = {}
    for h, pid, t in res["mapping"]:
        levels.setdefault(h, []).append((name[pid], float(t) * scale))
    keys = list(levels)
    rng.shuffle(keys)
    mapping = {}
    for h in keys:
        lst = levels[h]
        rng.shuffle(lst)
        mapping[h] = lst
    try:
        sids, offs = fo.find_offsets(mapping)
    except Exception as e:  # noqa
        return "find_offsets on the shuffled crossing table raised %s: %s" % (type(e).__name__, e)
    off = {sid: Fraction(float(o)) for sid, o in zip(sids, offs)}
    anchor = name[min(ids)]
    sc = Fraction(scale)
    for pid, num, den in res["relative"]:
        want = Fraction(num, den) * sc
        if name[pid] not in off:
            return "find_offsets left piece %d out" % pid
        got = off[name[pid]] - off[anchor]
        if abs(got - want) > TOL * max(1, abs(want), sc):
            return "find_offsets on the crossing table in another order: offset of piece %d relative to %d is %.12g, optimum %s" % (
                pid, min(ids), float(got), float(want))
    return None


def _worker(args):
    batch, what = args
    out = []
    for idx, obj in batch:
        rng = random.Random(idx)
        step = STEPS[idx % len(STEPS)]
        scale = [1.0, 1800.0, 0.25][(idx // 3) % 3]
        out.append((idx, step, scale, compare(obj["coll"], obj["res"], step, scale, what)))
    return out


def replay_curves(chk, label, consts, what, invs, procs=12):
    cfg = tlc.cfg_text(consts, spec="Spec", invariants=invs + ["EmitInv"])
    res = tlc.run("MCCurves", cfg, workers=14, invariants=invs, timeout=3300)
    chk.add_tlc(res, label)
    if res.get("violated"):
        chk.violation("Curves.tla violates its own invariant (%s): %s" % (label, res["error"][:600]),
                      {"kind": "tlc", "label": label})
        return
    emits = res["emits"]
    if not emits:
        raise MachineryError("MCCurves emitted nothing")
    items = list(enumerate(emits))
    jobs = [(items[i:i + 250], what) for i in range(0, len(items), 250)]
    ties = {}
    with mp.Pool(procs) as pool:
        for out in pool.imap_unordered(_worker, jobs):
            for idx, step, scale, d in out:
                obj = emits[idx]
                chk.count("evaluations")
                if not obj["res"]["judged"]:
                    if obj["res"].get("tie") and "members" in what:
                        ties.setdefault(_coll_key(obj["coll"]), []).append((idx, obj["coll"], step, scale))
                    chk.count("not_judged_no_unique_main_body_of_two_pieces")
                    continue
                chk.count("traces_validated_against_impl")
                if len(obj["res"]["members"]) >= 3 or len(obj["res"]["members"]) < len(obj["coll"]):
                    chk.count("distinct_nontrivial")
                    chk.sample({"pieces": obj["coll"], "step": step, "abscissa_scale": scale,
                                "spec_result": obj["res"]})
                if d:
                    chk.violation("get_series_time_offsets (step %s, scale %s) on %s: %s" % (
                        step, scale, json.dumps(obj["coll"]), d),
                        {"kind": "curves", "coll": obj["coll"], "res": obj["res"], "step": step, "scale": scale,
                         "what": list(what), "detail": d})
    judge_ties(chk, ties, label)


def _coll_key(coll):
    return json.dumps(sorted(({"id": p["id"], "top": p["top"], "dir": p["dir"], "t": [v - p["t"][0] for v in p["t"]]}
                              for p in coll), key=lambda p: p["id"]))


def judge_ties(chk, ties, label):
    """collections with several level-richest components: every presentation (order, axis shift) must give
    the same members / relative offsets / master curve; judged by TraceShift.tla"""
    import os
    from .common import workdir, rm
    cases = []
    for key, pres in ties.items():
        if len(pres) < 2:
            continue
        runs = []
        step, scale = pres[0][2], pres[0][3]
        for idx, coll, _, _ in pres[:8]:
            run = dict(status="", flags="", storm="", rise="", pair="", inter="", recession_curve="", rise_curve="",
                       recession_members="", rise_members="")
            try:
                ix, offs, mapping = run_real(coll, step, scale)
                ids = [coll[i]["id"] for i in ix]
                a = min(ids)
                off = {i: float(o) for i, o in zip(ids, offs)}
                run["status"] = "ok"
                run["recession_members"] = json.dumps(sorted(ids))
                run["recession_curve"] = json.dumps(sorted((i, round(off[i] - off[a], 6)) for i in ids))
                run["rise_curve"] = json.dumps(sorted(int(h) for h in mapping))
            except Exception as e:  # noqa
                run["status"] = "%s" % type(e).__name__
            runs.append(run)
        cases.append({"id": len(cases), "runs": runs, "prop": "C08", "between": "presentations (order / axis shift) of the same pieces",
                      "key": key})
    if not cases:
        return
    wd = workdir("ties")
    try:
        path = os.path.join(wd, "cases.json")
        json.dump(cases, open(path, "w"))
        res = tlc.run("TraceShift", "SPECIFICATION Spec\nPOSTCONDITION AllConsumed\nCHECK_DEADLOCK FALSE\n", workers=1,
                      env={"TRACE_FILE": path}, timeout=1200)
    finally:
        rm(wd)
    chk.add_tlc(res, "TraceShift on %d tie collections (%s)" % (len(cases), label))
    chk.count("tie_collections_judged_for_order_invariance", len(cases))
    chk.count("traces_validated_against_impl", len(cases))
    seen = set()
    for f in res["fails"]:
        if f["id"] in seen:
            continue
        seen.add(f["id"])
        c = cases[f["id"]]
        chk.violation("%s; pieces %s: first presentation %s, presentation %d %s" % (
            f["clause"], c["key"], {k: v for k, v in c["runs"][0].items() if v}, f["stretch"],
            {k: v for k, v in c["runs"][f["stretch"] - 1].items() if v}),
            {"kind": "curves_tie", "pieces": json.loads(c["key"]), "clause": f["clause"]})


def replay_file(chk, rp):
    d = compare(rp["coll"], rp["res"], rp["step"], rp["scale"], set(rp["what"]))
    print("replay:", d)
    chk.count("evaluations"); chk.count("distinct_nontrivial", 2); chk.count("traces_validated_against_impl")
    chk.sample(rp["coll"])
    if d:
        chk.violation("replayed: " + d, rp)


def C(np_, tops, lens, incs, dir_="DirDown", views="FALSE"):
    return {"NPieces": np_, "Tops": tops, "Lens": lens, "Incs": incs, "Dir": "<- " + dir_, "ShiftBy": "5",
            "Views": views, "Emit": "TRUE"}


def c05(chk, tier):
    q = tier == "quick"
    chk.cov["rule"] = (
        "TLC enumerates every collection of 2..4 pieces (falling or rising one grid level per sample, all "
        "start levels / lengths / abscissa increments of the stated sets), checks that the normal equations "
        "have a unique solution (Det # 0), that it is stationary (every piece's residuals against the level "
        "means sum to zero, in exact integer arithmetic) and independent of the pinned piece, and emits the "
        "exact rational optimum; the real get_series_time_offsets must return those offsets, crossings and "
        "master-curve values (1e-9) at grid steps 1, 0.5, 2.5 and abscissa scales 1, 1800, 0.25. "
        "non-trivial = >= 3 pieces aligned or a piece left out")
    invs = ["Inv_Optimal", "Inv_PinIndependent", "Inv_CodeAgrees"]
    what = {"relative", "master", "mapping"}
    replay_curves(chk, "MCCurves 2 pieces rich", C("{2}", "{2, 3, 4, 5}", "{1, 2, 3}", "{1, 3}"), what, invs)
    replay_curves(chk, "MCCurves 3 pieces", C("{3}", "{3, 4}" if q else "{3, 4, 5}", "{1, 2}", "{1, 3}"), what, invs)
    replay_curves(chk, "MCCurves rising 2-3 pieces", C("{2, 3}", "{3, 4}", "{1, 2}", "{2, 5}", "DirUp"), what, invs)
    if not q:
        replay_curves(chk, "MCCurves 4 pieces", C("{4}", "{3, 4}", "{1, 2}", "{1, 3}"), what, invs)
    # B: the tables written by the real rise / recession (synthetic workflows and field data):
    # TLC checks stationarity in fixed point (TraceStationary.tla)
    from . import prov_checks as PV
    PV.stationarity_on_tables(chk, tier)


def c08(chk, tier):
    q = tier == "quick"
    chk.cov["rule"] = (
        "TLC enumerates collections of pieces including disconnected overlap graphs and, as actions, every "
        "re-ordering (Swap) and a constant shift of a piece's own axis (Shift); invariants: the code-shaped "
        "component merge equals the declarative components, only and all of the main body is placed, the "
        "result equals the result of the first presentation; each reachable presentation is replayed into "
        "the real get_series_time_offsets: members, relative offsets and master curve must equal the "
        "specification's. Collections without a unique main body of >= 2 pieces are not judged. "
        "non-trivial = >= 3 pieces aligned or a piece left out")
    invs = ["Inv_Components", "Inv_CodeAgrees", "Inv_ResultUnchanged"]
    what = {"members", "relative", "master"}
    replay_curves(chk, "MCCurves views, 3 pieces, disconnected graphs",
                  C("{3}", "{2, 4, 5}" if q else "{2, 4, 5, 7}", "{1, 2}", "{2}" if q else "{1, 3}", views="TRUE"), what, invs)
    replay_curves(chk, "MCCurves views, 2 pieces", C("{2}", "{3, 4, 5}", "{1, 2, 3}", "{1, 3}", views="TRUE"), what, invs)
    # two bodies of two pieces each with the same number of levels: WHICH body is placed is not determined,
    # but it must not depend on the presentation (judged by TraceShift.tla across presentations)
    replay_curves(chk, "MCCurves views, 4 short pieces (ties between bodies)",
                  C("{4}", "{2, 5}" if q else "{2, 5, 8}", "{1}" if q else "{1, 2}", "{2}", views="TRUE"), what, invs)
    # pieces whose level does not move at all (they cross no level): left out, wherever they are presented
    replay_curves(chk, "MCCurves views, 3-4 pieces, some flat",
                  C("{3}" if q else "{3, 4}", "{3, 4, 5}" if q else "{2, 4, 5}", "{1, 2}", "{2}", "DirDownFlat", views="TRUE"), what, invs)
    # rising and falling pieces mixed: a level can bridge two groups that already exist
    replay_curves(chk, "MCCurves mixed directions, 3-4 pieces",
                  C("{3, 4}" if q else "{4}", "{2, 4, 5}" if q else "{1, 2, 4, 5}", "{1, 2}" if q else "{1, 2, 3}", "{2}", "DirBoth"), what, invs)
    if not q:
        replay_curves(chk, "MCCurves views, 4 pieces", C("{4}", "{2, 4, 5}", "{1, 2}", "{2}", views="TRUE"), what, invs)
        replay_curves(chk, "MCCurves views rising", C("{3}", "{2, 4, 5}", "{1, 2}", "{2}", "DirUp", views="TRUE"), what, invs)
