"""Hook-free fault / crash injection and statement-stream recording for the
real CLI: `spowtd.user_interface` looks up `sqlite3.connect` at call time, so
the harness process substitutes a proxy whose connections count write points
(every executed INSERT/UPDATE/DELETE/CREATE and every row of an executemany)
and raise sqlite3.OperationalError -- or SIGKILL the process -- at the k-th."""
import os
import signal
import sqlite3
import sys
import types

WRITE_WORDS = ("INSERT", "UPDATE", "DELETE", "CREATE", "DROP", "REPLACE", "ALTER")


def is_write(sql):
    if not sql.strip():
        return False
    first = sql.lstrip().split(None, 1)[0].upper()
    if first == "WITH":      # WITH ... INSERT / UPDATE / DELETE
        up = sql.upper()
        return any((" %s " % w) in up.replace("\n", " ") for w in ("INSERT", "UPDATE", "DELETE", "REPLACE"))
    return first in WRITE_WORDS


class Plan:
    """mode: 'count' | 'fail' | 'kill'; at: 1-based write point; when: 'before' | 'after'"""

    def __init__(self, mode="count", at=0, when="before"):
        self.mode, self.at, self.when = mode, at, when
        self.writes = 0
        self.log = []          # statement stream (through the trace callback)
        self.fired = False

    def point(self, phase):
        """called before ('before') and after ('after') each write point"""
        if phase == "before":
            self.writes += 1
        if self.mode in ("fail", "kill") and not self.fired and self.writes == self.at and phase == self.when:
            self.fired = True
            if self.mode == "kill":
                sys.stdout.flush()
                os.kill(os.getpid(), signal.SIGKILL)
            raise sqlite3.OperationalError("injected fault at write point %d (%s)" % (self.at, self.when))


def make_proxy(plan):
    class Cursor(sqlite3.Cursor):
        def execute(self, sql, *a):
            w = is_write(sql)
            if w:
                plan.point("before")
            r = super().execute(sql, *a)
            if w:
                plan.point("after")
            return r

        def executemany(self, sql, rows):
            if not is_write(sql):
                return super().executemany(sql, rows)

            def gen():
                for row in rows:
                    plan.point("before")
                    yield row
                    # the previous row has been written when the next one is requested
            r = super().executemany(sql, gen())
            plan.point("after")
            return r

    class Connection(sqlite3.Connection):
        def cursor(self, factory=Cursor):
            return super().cursor(factory)

        def execute(self, sql, *a):
            return self.cursor().execute(sql, *a)

        def executemany(self, sql, rows):
            return self.cursor().executemany(sql, rows)

    def connect(database, *args, **kw):
        kw["factory"] = Connection
        conn = sqlite3.connect(database, *args, **kw)
        conn.set_trace_callback(lambda s: plan.log.append(s))
        return conn

    proxy = types.ModuleType("sqlite3_proxy")
    proxy.__dict__.update({k: v for k, v in sqlite3.__dict__.items() if not k.startswith("__")})
    proxy.connect = connect
    return proxy


class injected:
    """context manager: run CLI commands with the plan installed"""

    def __init__(self, plan):
        self.plan = plan

    def __enter__(self):
        import spowtd.user_interface as ui
        self.ui = ui
        self.saved = ui.sqlite3
        ui.sqlite3 = make_proxy(self.plan)
        return self.plan

    def __exit__(self, *exc):
        self.ui.sqlite3 = self.saved
        return False


def summarize(log):
    """statement stream -> events for TraceTxn.tla"""
    ev = []
    for s in log:
        w = s.lstrip().split(None, 1)[0].upper() if s.strip() else ""
        if w == "BEGIN":
            ev.append("begin")
        elif w == "COMMIT":
            ev.append("commit")
        elif w == "ROLLBACK":
            ev.append("rollback")
        elif w in WRITE_WORDS or (w == "WITH" and is_write(s)):
            ev.append("write")
        elif w in ("SELECT", "WITH", "PRAGMA"):
            ev.append("read")
        else:
            ev.append("other")
    rle = []
    for e in ev:          # run-length encoding: [[event, count], ...]
        if rle and rle[-1][0] == e:
            rle[-1][1] += 1
        else:
            rle.append([e, 1])
    return rle


def main(argv):
    """subprocess entry: python -m harness.faults <mode> <at> <when> -- <spowtd argv...>
    exit status: 0 ok, 3 command failed (exception), killed by SIGKILL otherwise"""
    mode, at, when = argv[0], int(argv[1]), argv[2]
    rest = argv[argv.index("--") + 1:]
    from . import present as P
    plan = Plan(mode, at, when)
    with injected(plan):
        o = P.cli(rest)
    print("writes=%d" % plan.writes)
    return 0 if o.ok else 3


if __name__ == "__main__":
    sys.exit(main(sys.argv[1:]))
