"""C12: every series TLC enumerates (MCRegrid.tla) goes through the real
regrid.regrid and fit_offsets.build_head_mapping."""
import json
import multiprocessing as mp
import random
from fractions import Fraction

import numpy as np

from . import tlc
from .common import MachineryError, seed, import_repo

import_repo()

DYADIC_STEPS = [1.0, 2.0, 0.5, 0.25]
OTHER_STEPS = [0.1, 0.3, 2.5, 5.0]
XSCALES = [(0.0, 1.0, 1e-9), (0.0, 0.25, 1e-9), (1.6e9, 600.0, 1e-5), (-5.0e8, 1800.0, 1e-5)]


def present(ser, D, step, xs):
    x0, dx, _ = xs
    x = np.array([x0 + s["x"] * dx for s in ser], dtype=float)
    y = []
    for s in ser:
        v = (s["p"] / D) * step
        if s["e"] > 0:
            v = np.nextafter(v, np.inf)
        elif s["e"] < 0:
            v = np.nextafter(v, -np.inf)
        y.append(v)
    return x, np.array(y, dtype=float)


def check_one(obj, step, xs):
    import spowtd.regrid as regrid_mod
    import spowtd.fit_offsets as fo
    ser, D, rep = obj["ser"], obj["D"], obj["rep"]
    x0, dx, tol = xs
    x, y = present(ser, D, step, xs)
    try:
        got = list(regrid_mod.regrid(x, y, step))
    except Exception as e:  # noqa
        return "regrid raised %s: %s" % (type(e).__name__, e)
    # den = 0: the specification only brackets the position (two samples one ulp either side of a level)
    exp = [(n, Fraction(num, den) if den else None) for n, (num, den) in rep]
    pair_of = {}
    for i in range(len(ser) - 1):
        pair_of.setdefault((ser[i]["p"], ser[i + 1]["p"], i), None)
    if not all(np.isfinite(float(g[0])) and np.isfinite(float(g[1])) for g in got):
        return "regrid reported a level or a position that is not finite: %s" % ([(float(a), float(b)) for a, b in got][:4],)
    if [int(g[0]) for g in got] != [n for n, _ in exp]:
        return "levels reported %s, specification %s" % ([int(g[0]) for g in got], [n for n, _ in exp])
    if any(pos is None for _, pos in exp):
        lo, hi = float(x.min()), float(x.max())
        if not all(lo <= float(gx) <= hi for _, gx in got):
            return "a crossing lies outside the series"
        return None
    for (gn, gx), (n, pos) in zip(got, exp):
        want = Fraction(x0) + pos * Fraction(dx)
        if abs(Fraction(float(gx)) - want) > Fraction(tol) * max(1, abs(Fraction(dx))):
            return "level %d reported at %r, exact position %s" % (n, float(gx), float(want))
    # means per level (build_head_mapping)
    try:
        hm = fo.build_head_mapping([(x, y)], step)
    except Exception as e:  # noqa
        return "build_head_mapping raised %s: %s" % (type(e).__name__, e)
    want = {}
    for n, pos in exp:
        want.setdefault(n, []).append(Fraction(x0) + pos * Fraction(dx))
    if set(hm) != set(want):
        return "build_head_mapping levels %s, specification %s" % (sorted(hm), sorted(want))
    for n, lst in want.items():
        mean = sum(lst) / len(lst)
        (sid, tm), = hm[n]
        if sid != 0 or not np.isfinite(float(tm)) or abs(Fraction(float(tm)) - mean) > Fraction(tol) * max(1, abs(Fraction(dx))):
            return "mean crossing of level %d is %r, exact %s" % (n, float(tm), float(mean))
    return None


def _worker(batch):
    out = []
    for idx, obj in batch:
        ser, D = obj["ser"], obj["D"]
        has_eps = any(s["e"] != 0 for s in ser)
        generic = all((s["p"] % D) != 0 for s in ser)
        steps = list(DYADIC_STEPS)
        if any(s["p"] == 0 and s["e"] != 0 for s in ser):
            steps.remove(2.0)     # (0 +- 1 ulp) / 2 underflows to 0: not presentable
        if not has_eps:
            # 49, 75, 99: steps whose reciprocal is not exact -- a sample ON a level must still divide to the level
            steps += [2.5, 5.0, 49.0, 75.0, 99.0]
            if generic:
                steps += [0.1, 0.3]
        rng = random.Random(idx)
        for step in steps:
            xs = XSCALES[rng.randrange(len(XSCALES))] if step != 1.0 else XSCALES[idx % len(XSCALES)]
            d = check_one(obj, step, xs)
            out.append((idx, step, xs, d))
    return out


def c12(chk, tier):
    q = tier == "quick"
    chk.cov["rule"] = (
        "TLC enumerates every series of 2..MaxN samples over the half-integer ordinate lattice (x ulp "
        "displacement -1/0/+1) with irregular abscissae, checks Bracketed / OnTheLine / once-per-pair / "
        "monotone-once as invariants of Regrid.tla and emits the exact report; each series is presented to the "
        "real regrid() and build_head_mapping() at steps {1,2,0.5,0.25} (all), {2.5,5} (no ulp classes), "
        "{0.1,0.3} (generic-position samples only) and at small and UNIX-epoch abscissae; ids must match "
        "exactly in order, positions within 1e-9 (1e-5 s at epoch scale). non-trivial = >= 1 crossing")
    invs = ["Inv_Bracketed", "Inv_Once", "Inv_OnTheLine", "Inv_Monotone"]
    runs = [("MCRegrid n<=3 with ulp classes", {"MaxN": "3", "Ps": "<- PsA", "Es": "<- EsAll",
                                                "Gaps": "{1, 3}", "D": "2", "Emit": "TRUE"})]
    if q:
        runs.append(("MCRegrid n<=4", {"MaxN": "4", "Ps": "<- PsB", "Es": "<- EsNone", "Gaps": "{1, 2}",
                                       "D": "2", "Emit": "TRUE"}))
    else:
        runs.append(("MCRegrid n<=4 ulp", {"MaxN": "4", "Ps": "<- PsC", "Es": "<- EsAll",
                                           "Gaps": "{1, 3}", "D": "2", "Emit": "TRUE"}))
        runs.append(("MCRegrid n<=5", {"MaxN": "5", "Ps": "<- PsD", "Es": "<- EsNone", "Gaps": "{1, 2}",
                                       "D": "2", "Emit": "TRUE"}))
    # one pair of samples crossing many levels (a storm rise: tens of levels between two samples)
    runs.append(("MCRegrid n<=4 wide jumps", {"MaxN": "4", "Ps": "<- PsW", "Es": "<- EsNone", "Gaps": "{1, 2}",
                                              "D": "2", "Emit": "TRUE"}))
    for label, consts in runs:
        res = tlc.run("MCRegrid", tlc.cfg_text(consts, spec="Spec", invariants=invs + ["EmitInv"]),
                      workers=12, invariants=invs, timeout=3000)
        chk.add_tlc(res, label)
        if res.get("violated"):
            chk.violation("Regrid.tla violates its own invariant: " + res["error"][:500], {"kind": "tlc"})
            continue
        emits = res["emits"]
        if not emits:
            raise MachineryError("MCRegrid emitted nothing")
        items = list(enumerate(emits))
        jobs = [items[i:i + 300] for i in range(0, len(items), 300)]
        with mp.Pool(12) as pool:
            for out in pool.imap_unordered(_worker, jobs):
                for idx, step, xs, d in out:
                    obj = emits[idx]
                    chk.count("evaluations")
                    chk.count("traces_validated_against_impl")
                    if obj["rep"]:
                        chk.count("distinct_nontrivial")
                        if len(obj["rep"]) >= 3:
                            chk.sample({"series": obj["ser"], "D": obj["D"], "step": step, "x0_dx_tol": xs,
                                        "spec_report": obj["rep"]})
                    if d:
                        chk.violation("regrid at step %s, abscissae %s, series %s: %s" % (
                            step, xs, json.dumps(obj["ser"]), d),
                            {"kind": "regrid", "obj": obj, "step": step, "xs": list(xs), "detail": d})


def replay_file(chk, rp):
    d = check_one(rp["obj"], rp["step"], tuple(rp["xs"]))
    print("replay:", d)
    chk.count("evaluations"); chk.count("distinct_nontrivial", 2); chk.count("traces_validated_against_impl")
    chk.sample(rp["obj"]["ser"])
    if d:
        chk.violation("replayed: " + d, rp)
