"""C01-C04: replay of TLC-enumerated records into the real classifier
(specification -> code), plus validation by TLC of the real classifier's
results on records TLC did not choose (code -> specification)."""
import json
import multiprocessing as mp
import os
import random

from . import tlc
from .common import Check, MachineryError, seed, workdir, rm
from . import present as P

KEYS = {
    "C01": ("storm", "rise", "pair"),
    "C02": ("pair",),
    "C03": ("storm", "rise", "depth"),
    "C04": ("inter", "flags"),
}


def _run_one(rec, outs, pres_kw, keys, mode, wd):
    pres = P.Presentation(**pres_kw)
    if not pres.presentable(rec):
        return ("skip", "no adjacent pair of level samples: load sees no gap", None)
    if mode == "cli":
        proj, problems, err = P.classify_cli(pres, rec, wd, tag="r%d" % os.getpid())
    else:
        proj, problems, err = P.classify_api(pres, rec)
    if err:
        return ("error", err, None)
    if problems:
        return ("mismatch", "; ".join(problems), None)
    first = None
    for out in outs:
        diffs = []
        for k in range(len(rec)):
            diffs += ["stretch %d: %s" % (k + 1, d)
                      for d in P.compare_tables(proj[k], P.expected_tables(out[k]), keys)]
        if not diffs:
            return ("ok", "", None)
        first = first or diffs
    return ("mismatch", "; ".join(first[:4]), _jsonable(proj))


def _jsonable(proj):
    return [{k: (sorted(v) if isinstance(v, set) else {str(i): list(f) for i, f in v.items()})
             for k, v in p.items()} for p in proj]


def _worker(args):
    batch, pres_list, keys, mode = args
    wd = workdir("cls") if mode == "cli" else None
    res = []
    try:
        for rec, outs in batch:
            for pi, pres_kw in enumerate(pres_list):
                st, detail, proj = _run_one(rec, outs, pres_kw, keys, mode, wd)
                res.append((json.dumps(rec), pi, st, detail, proj))
    finally:
        if wd:
            rm(wd)
    return res


def replay_emitted(chk, label, constants, invariants, properties, pres_list, keys, mode="api",
                   cli_every=0, workers=8, procs=12, batch=300, timeout=3000, nontrivial=None):
    """Run MCClassify under TLC with `constants`; every record TLC enumerates is
    grouped with all the outcomes the specification allows and replayed."""
    by_rec = {}

    def on_emit(obj):
        key = json.dumps(obj["rec"])
        by_rec.setdefault(key, []).append(obj["out"])

    cfg = tlc.cfg_text(constants, spec="Spec", invariants=list(invariants) + ["EmitInv"],
                       properties=properties)
    res = tlc.run("MCClassify", cfg, workers=workers, on_emit=on_emit, timeout=timeout,
                  invariants=invariants, properties=properties)
    chk.add_tlc(res, label)
    if res.get("violated"):
        chk.violation("TLC: the specification itself violates an invariant (%s): %s" % (
            label, res["error"][:600]), {"kind": "tlc", "label": label, "error": res["error"][:4000]})
        return
    if not by_rec:
        raise MachineryError("no record emitted by TLC for %s" % label)
    items = [(json.loads(k), v) for k, v in by_rec.items()]
    random.Random(seed()).shuffle(items)
    _replay(chk, items, pres_list, keys, mode, procs, batch, nontrivial)
    if cli_every:
        sub = items[::cli_every]
        _replay(chk, sub, pres_list[:1], keys, "cli", procs, 50, nontrivial)


def _replay(chk, items, pres_list, keys, mode, procs, batch, nontrivial):
    jobs = [(items[i:i + batch], pres_list, keys, mode) for i in range(0, len(items), batch)]
    expected = dict((json.dumps(r), o) for r, o in items)
    with mp.Pool(procs) as pool:
        for res in pool.imap_unordered(_worker, jobs):
            for key, pi, st, detail, proj in res:
                rec = json.loads(key)
                chk.count("evaluations")
                if st == "skip":
                    chk.count("skipped_not_presentable")
                    continue
                chk.count("traces_validated_against_impl")
                nt = nontrivial(rec, expected[key]) if nontrivial else True
                if nt:
                    chk.count("distinct_nontrivial")
                    chk.sample({"record": rec, "presentation": pres_list[pi], "mode": mode,
                                "spec_tables": expected[key][0], "verdict": st})
                if st == "ok":
                    continue
                if st == "error" and chk.prop != "C01":
                    # nothing was recorded: C02-C04 hold vacuously; totality is C01's
                    chk.count("not_judged_classification_raised")
                    continue
                chk.violation(
                    "%s on record %s (%s): %s" % (
                        "classification raised" if st == "error" else "tables differ from the specification",
                        key, mode, detail),
                    {"kind": "classify_record", "rec": rec, "pres": pres_list[pi], "mode": mode,
                     "keys": list(keys), "expected_any_of": expected[key], "observed": proj,
                     "detail": detail, "key": _finding_key(st, detail)})


def _finding_key(st, detail):
    return None


def replay_file(chk, rp):
    """--replay for kind=classify_record"""
    wd = workdir("rp")
    try:
        st, detail, proj = _run_one(rp["rec"], rp["expected_any_of"], rp["pres"],
                                    tuple(rp["keys"]), rp.get("mode", "api"), wd)
    finally:
        rm(wd)
    print("replay: %s %s" % (st, detail))
    if st in ("mismatch",) or (st == "error" and chk.prop == "C01"):
        chk.violation("replayed: " + detail, rp)
    chk.count("evaluations")
    chk.count("distinct_nontrivial", 2)
    chk.count("traces_validated_against_impl")
    chk.sample(rp["rec"])


# ---------------------------------------------------------------------------
# code -> specification: TLC judges what the real classifier recorded
# ---------------------------------------------------------------------------
def random_record(rng, max_len=36, S=4, J=4):
    """records with long bursts and long rises so that storms contend for rises"""
    rec = []
    for _ in range(rng.choice([1, 1, 2, 3])):
        m = rng.randint(1, max_len)
        rain, inc = [], []
        mode_r, mode_i = rng.random(), rng.random()
        for k in range(m):
            if rng.random() < 0.35:
                mode_r = rng.random()
            if rng.random() < 0.35:
                mode_i = rng.random()
            rain.append(rng.choice([S + 1, S + 3]) if mode_r < 0.45 else rng.choice([0, 0, 2, S]))
            inc.append(rng.choice([J + 1, J + 2]) if mode_i < 0.5 else rng.choice([-1, 0, 0, J, -2]))
        rec.append({"rain": rain, "inc": inc[:m - 1]})
    return rec


def observe_case(args):
    cid, rec, pres_kw, mode = args
    pres = P.Presentation(**pres_kw)
    wd = workdir("obs") if mode == "cli" else None
    try:
        if mode == "cli":
            proj, problems, err = P.classify_cli(pres, rec, wd, tag="o%d" % os.getpid())
        else:
            proj, problems, err = P.classify_api(pres, rec)
    finally:
        if wd:
            rm(wd)
    if err or problems:
        # `problems`: classification completed but what it recorded does not project onto the record (thresholds
        # table other than the configured thresholds, rows outside every stretch): a difference by itself
        return cid, None, err or "PROBLEM: " + "; ".join(problems)
    obs = []
    for k, st in enumerate(rec):
        p = proj[k]
        obs.append({
            "storm": sorted(map(list, p["storm"])), "rise": sorted(map(list, p["rise"])),
            "pair": sorted(map(list, p["pair"])), "inter": sorted(map(list, p["inter"])),
            "depth": sorted([s, int(round(d))] for s, d in p["depth"]
                            ),
            "flags": [list(p["flags"].get(q + 1, (None, None, None))) for q in range(len(st["rain"]))],
            "depth_exact": all(abs(d - round(d)) < 1e-9 for _, d in p["depth"]),
        })
    missing = [(k + 1, q + 1) for k, o in enumerate(obs) for q, f in enumerate(o["flags"]) if None in f]
    if missing:
        # a sample without a flag row cannot be encoded for TLC (JSON null); it is a difference by itself
        return cid, None, "NOFLAGS: no flag row for (stretch, sample) %s" % missing[:6]
    return cid, {"id": cid, "rec": rec, "S": pres.S, "J": pres.J, "obs": obs}, None


def validate_cases(chk, cases, label, workers=8):
    """hand recorded cases to TraceClassify.tla; returns list of FAIL dicts"""
    wd = workdir("trace")
    try:
        path = os.path.join(wd, "cases.json")
        with open(path, "w") as f:
            json.dump(cases, f)
        cfg = "SPECIFICATION Spec\nPOSTCONDITION AllConsumed\nCHECK_DEADLOCK FALSE\n"
        res = tlc.run("TraceClassify", cfg, workers=1, env={"TRACE_FILE": path}, timeout=3000)
        chk.add_tlc(res, label)
        if res.get("violated") or not res["ok"]:
            raise MachineryError("trace validation did not consume all cases (%s): %s" % (label, res["tail"][-1500:]))
        if res["distinct"] != len(cases) + 1:
            raise MachineryError("trace spec consumed %d of %d cases" % (res["distinct"] - 1, len(cases)))
        return res["fails"]
    finally:
        rm(wd)


def code_to_spec(chk, n_cases, pres_list, mode="api", procs=12, prefixes=("C01", "C02", "C03", "C04"),
                 max_len=36):
    rng = random.Random(seed() * 7919 + 17)
    jobs = []
    for c in range(n_cases):
        pres_kw = pres_list[c % len(pres_list)]
        SJ = dict(S=pres_kw.get("S", 4), J=pres_kw.get("J", 4))
        rec = random_record(rng, max_len=max_len, **SJ)
        while not P.Presentation(**pres_kw).presentable(rec):
            rec = random_record(rng, max_len=max_len, **SJ)
        jobs.append((c, rec, pres_kw, mode if c % 10 else "cli"))
    cases, by_id = [], {}
    with mp.Pool(procs) as pool:
        for cid, case, err in pool.imap_unordered(observe_case, jobs, chunksize=8):
            chk.count("evaluations")
            job = jobs[cid]
            if err:
                if err.startswith("PROBLEM: "):
                    chk.violation("classification of record %s recorded tables that do not describe it: %s" % (
                        json.dumps(job[1]), err[9:]),
                        {"kind": "classify_total", "rec": job[1], "pres": job[2], "mode": job[3], "detail": err})
                elif err.startswith("NOFLAGS") and chk.prop == "C04":
                    chk.violation("flags are not defined for every sample of record %s: %s" % (json.dumps(job[1]), err),
                                  {"kind": "classify_total", "rec": job[1], "pres": job[2], "mode": job[3],
                                   "detail": err})
                elif chk.prop == "C01":
                    chk.violation("classification failed on random record: %s" % err,
                                  {"kind": "classify_total", "rec": job[1], "pres": job[2], "mode": job[3],
                                   "detail": err})
                else:
                    chk.count("not_judged_classification_raised")
                continue
            cases.append(case)
            by_id[cid] = job
    cases.sort(key=lambda c: c["id"])
    fails = validate_cases(chk, cases, "TraceClassify on %d random records" % len(cases))
    chk.count("traces_validated_against_impl", len(cases))
    nt = sum(1 for c in cases if any(o["pair"] for o in c["obs"]) and any(o["inter"] for o in c["obs"]))
    chk.count("distinct_nontrivial", nt)
    if cases:
        chk.sample({"trace_case": cases[0]})
    for f in fails:
        if not f["clause"].startswith(prefixes):
            continue
        job = by_id[f["id"]]
        case = [c for c in cases if c["id"] == f["id"]][0]
        chk.violation("TLC rejects what the code recorded: %s (stretch %d of record %s)" % (
            f["clause"], f["stretch"], json.dumps(job[1])),
            {"kind": "classify_trace", "case": case, "pres": job[2], "mode": job[3], "clause": f["clause"]})


def replay_trace_case(chk, rp):
    cid, case, err = observe_case((rp["case"]["id"], rp["case"]["rec"], rp["pres"], rp.get("mode", "api")))
    if err:
        if chk.prop == "C01" or err.startswith("PROBLEM: ") or (chk.prop == "C04" and err.startswith("NOFLAGS")):
            chk.violation("replayed: " + err, rp)
        return
    fails = validate_cases(chk, [case], "replay")
    for f in fails:
        if f["clause"].startswith(chk.prop):
            chk.violation("replayed: " + f["clause"], rp)
    chk.count("evaluations"); chk.count("distinct_nontrivial", 2); chk.count("traces_validated_against_impl")
    chk.sample(case)
