"""C02: abstract arbitration instances enumerated by TLC (MCMatching.tla) are
replayed into the real find_stable_matching / disambiguate_matching."""
import itertools
import json
import multiprocessing as mp
import random

from . import tlc
from .common import MachineryError, seed, import_repo

import_repo()


def _inst_key(obj):
    return json.dumps({"E": sorted(obj["E"]), "dur": sorted(obj["dur"]), "off": sorted(obj["off"]),
                       "geo": obj["geo"]}, sort_keys=True)


def _run_fsm(inst, relabel, order_seed):
    """build the containers exactly as disambiguate_matching does and call the real loop"""
    import spowtd.classify as c
    E = [tuple(e) for e in inst["E"]]
    dur = {tuple(k): v for k, v in inst["dur"]}
    off = {tuple(k): v for k, v in inst["off"]}
    rng = random.Random(order_seed)
    rng.shuffle(E)           # insertion order of candidate pairs varies
    storms, rises = {}, {}
    for s, r in E:
        storms.setdefault(relabel[s], []).append(r)
        rises.setdefault(r, []).append(relabel[s])
    inv = {v: k for k, v in relabel.items()}
    storm_candidates = {s: sorted(rs, key=lambda r, s=s: -abs(float(dur[(inv[s], r)])))
                        for s, rs in storms.items()}
    jump_preferences = {r: {s: -abs(off[(inv[s], r)]) for s in ss} for r, ss in rises.items()}
    m = c.find_stable_matching(storm_candidates, jump_preferences)
    return sorted([inv[s], r] for r, s in m.items())


def _run_disamb(inst, order_seed):
    import spowtd.classify as c
    gs = inst["geo"]["s"]
    gr = inst["geo"]["r"]
    # JSON of a TLA+ function with domain 1..n is an array; with domain 101..k an object
    def shape(g, ident):
        if isinstance(g, list):
            return g[ident - 1]
        return g[str(ident)]
    E = [tuple(e) for e in inst["E"]]
    random.Random(order_seed).shuffle(E)
    rain_intervals, jump_intervals = [], []
    for s, r in E:
        a, n = shape(gs, s)
        b, k = shape(gr, r)
        rain_intervals.append((a, a + n))            # n time steps
        jump_intervals.append((b, b + k + 1))        # k increments = k + 1 head values
    ri, ji = c.disambiguate_matching(rain_intervals, jump_intervals)
    s_by_start = {shape(gs, s)[0]: s for s in {e[0] for e in E}}
    r_by_start = {shape(gr, r)[0]: r for r in {e[1] for e in E}}
    out = []
    for (a, a2), (b, b2) in zip(ri, ji):
        s, r = s_by_start[a], r_by_start[b]
        if a2 - a != shape(gs, s)[1] or b2 - b != shape(gr, r)[1] + 1:
            return "interval ends changed: %r %r" % ((a, a2), (b, b2))
        out.append([s, r])
    return sorted(out)


def _worker(args):
    batch, geo = args
    res = []
    for key, inst, allowed, ties in batch:
        allowed_set = {json.dumps(sorted(m)) for m in allowed}
        storms = sorted({e[0] for e in inst["E"]})
        bad = None
        try:
            if geo:
                for oseed in range(3):
                    m = _run_disamb(inst, oseed)
                    if isinstance(m, str) or json.dumps(m) not in allowed_set:
                        bad = ("disambiguate_matching", m, oseed)
                        break
            else:
                perms = list(itertools.permutations(range(1, len(storms) + 1)))[:6]
                for pi, perm in enumerate(perms):
                    relabel = {s: 1000 * perm[i] + 7 for i, s in enumerate(storms)}
                    m = _run_fsm(inst, relabel, pi)
                    if json.dumps(m) not in allowed_set:
                        bad = ("find_stable_matching", m, pi)
                        break
        except Exception as e:  # noqa
            bad = ("exception", "%s: %s" % (type(e).__name__, e), 0)
        res.append((key, bad, ties))
    return res


def replay_matching(chk, label, consts, geo, workers=8, procs=12, timeout=3000):
    by_inst = {}

    def on_emit(obj):
        key = _inst_key(obj)
        ent = by_inst.setdefault(key, [obj, [], obj["ties"]])
        ent[1].append(sorted(obj["M"]))

    invs = ["TypeOK", "LoopInvariant", "StableAtEnd", "OptimalAtEnd", "UnmatchedExhausted", "Progress"]
    cfg = tlc.cfg_text(consts, spec="Spec", invariants=invs + ["EmitInv"], properties=["Termination"])
    res = tlc.run("MCMatching", cfg, workers=workers, on_emit=on_emit, timeout=timeout,
                  invariants=invs, properties=["Termination"])
    chk.add_tlc(res, label)
    if res.get("violated"):
        chk.violation("TLC: the specification violates an invariant (%s): %s" % (label, res["error"][:600]),
                      {"kind": "tlc", "label": label, "error": res["error"][:4000]})
        return
    if not by_inst:
        raise MachineryError("no instance emitted for " + label)
    items = [(k, {"E": v[0]["E"], "dur": v[0]["dur"], "off": v[0]["off"], "geo": v[0]["geo"]}, v[1], v[2])
             for k, v in by_inst.items()]
    random.Random(seed()).shuffle(items)
    lookup = {k: (i, a) for k, i, a, _ in items}
    if not geo:
        step_level(chk, [it[1] for it in items[:4000]], "TraceMatching (loop steps) for " + label)
    jobs = [(items[i:i + 400], geo) for i in range(0, len(items), 400)]
    with mp.Pool(procs) as pool:
        for out in pool.imap_unordered(_worker, jobs):
            for key, bad, ties in out:
                inst, allowed = lookup[key]
                chk.count("evaluations")
                chk.count("traces_validated_against_impl")
                contention = len(inst["E"]) > len({e[0] for e in inst["E"]}) or \
                    len(inst["E"]) > len({e[1] for e in inst["E"]})
                if contention:
                    chk.count("distinct_nontrivial")
                    if len(inst["E"]) >= 3:
                        chk.sample({"instance": inst, "spec_allows": allowed, "ties": ties})
                if bad:
                    chk.violation(
                        "%s returned %s on instance %s; the specification allows only %s" % (
                            bad[0], bad[1], json.dumps(inst), allowed),
                        {"kind": "matching_instance", "inst": inst, "allowed": allowed, "geo": geo,
                         "observed": bad[1], "via": bad[0]})


def replay_file(chk, rp):
    out = _worker(([("k", rp["inst"], rp["allowed"], False)], rp["geo"]))
    for key, bad, _ in out:
        print("replay:", bad)
        if bad:
            chk.violation("replayed: %s returned %s" % (bad[0], bad[1]), rp)
    chk.count("evaluations"); chk.count("distinct_nontrivial", 2); chk.count("traces_validated_against_impl")
    chk.sample(rp["inst"])


# ---------------------------------------------------------------------------
# step-level trace validation of the real loop (TraceMatching.tla)
# ---------------------------------------------------------------------------
class _Stack(list):
    """candidate list whose pop() is recorded: one Propose(storm, rise) per loop iteration"""

    def __init__(self, items, storm, log):
        super().__init__(items)
        self.storm, self.log = storm, log

    def pop(self, *a):
        r = super().pop(*a)
        self.log.append([self.storm, r])
        return r


def loop_trace(inst, order_seed, cid):
    import spowtd.classify as c
    E = [tuple(e) for e in inst["E"]]
    dur = {tuple(k): v for k, v in inst["dur"]}
    off = {tuple(k): v for k, v in inst["off"]}
    rng = random.Random(order_seed)
    rng.shuffle(E)
    storms, rises = {}, {}
    for s, r in E:
        storms.setdefault(s, []).append(r)
        rises.setdefault(r, []).append(s)
    log = []
    cand = {s: _Stack(sorted(rs, key=lambda r, s=s: -abs(float(dur[(s, r)]))), s, log) for s, rs in storms.items()}
    prefs = {r: {s: -abs(off[(s, r)]) for s in ss} for r, ss in rises.items()}
    try:
        m = c.find_stable_matching(cand, prefs)
    except Exception as e:  # noqa
        return None, "%s: %s" % (type(e).__name__, e)
    Es = sorted(E)
    return {"id": cid, "E": [list(e) for e in Es], "dur": [dur[e] for e in Es], "off": [off[e] for e in Es],
            "proposals": log, "M": sorted([s, r] for r, s in m.items())}, None


def step_level(chk, insts, label):
    """insts: list of abstract instances (E, dur, off as emitted by MCMatching)"""
    import os
    from .common import workdir, rm
    cases = []
    for i, inst in enumerate(insts):
        if not inst["E"]:
            continue
        t, err = loop_trace(inst, i, i)
        chk.count("evaluations")
        if err:
            chk.violation("find_stable_matching raised on %s: %s" % (json.dumps(inst), err),
                          {"kind": "matching_instance", "inst": inst, "allowed": [], "geo": False, "observed": err,
                           "via": "exception"})
            continue
        cases.append(t)
    wd = workdir("tmatch")
    try:
        path = os.path.join(wd, "cases.json")
        json.dump(cases, open(path, "w"))
        res = tlc.run("TraceMatching", "SPECIFICATION Spec\nPOSTCONDITION AllConsumed\nCHECK_DEADLOCK FALSE\n",
                      workers=1, env={"TRACE_FILE": path}, timeout=1800)
    finally:
        rm(wd)
    chk.add_tlc(res, label)
    if not res["ok"]:
        raise MachineryError("TraceMatching did not finish all traces: %s\n%s" % (res["error"][:600], res["tail"][-400:]))
    chk.count("traces_validated_against_impl", len(cases))
    chk.count("loop_traces", len(cases))
    chk.count("loop_events", sum(len(c["proposals"]) for c in cases))
    if cases:
        big = max(cases, key=lambda c: len(c["proposals"]))
        chk.sample({"loop_trace": big})
    by = {c["id"]: c for c in cases}
    for f in res["fails"]:
        chk.violation("step-level trace of the real loop rejected by Matching.tla: %s (event %s of %s)" % (
            f["clause"], f["stretch"], json.dumps(by[f["id"]])),
            {"kind": "loop_trace", "case": by[f["id"]], "clause": f["clause"]})
