"""Demonstrating the binding: for each trace specification, a trace recorded
from the real code is accepted, and the same trace with ONE recorded field
corrupted is rejected with the expected clause.  A corrupted trace that is
accepted means the check is vacuous: machinery failure (exit 2)."""
import copy
import json
import os
import random

from . import tlc
from .common import Check, MachineryError, workdir, rm


def _run(module, cases):
    wd = workdir("self")
    try:
        path = os.path.join(wd, "cases.json")
        json.dump(cases, open(path, "w"))
        res = tlc.run(module, "SPECIFICATION Spec\nPOSTCONDITION AllConsumed\nCHECK_DEADLOCK FALSE\n", workers=1,
                      env={"TRACE_FILE": path}, timeout=900)
    finally:
        rm(wd)
    if not res["ok"]:
        raise MachineryError("%s did not finish: %s" % (module, res["error"][:400]))
    return res["fails"]


def _expect(module, good, bad, prefix, what):
    f = _run(module, good)
    if f:
        raise MachineryError("selftest %s: the uncorrupted trace is rejected: %s" % (what, f[:2]))
    f = _run(module, bad)
    if not any(x["clause"].startswith(prefix) for x in f):
        raise MachineryError("selftest %s: the corrupted trace was ACCEPTED (vacuous check)" % what)
    return "%s: corrupted trace rejected (%s)" % (what, f[0]["clause"])


def st_classify():
    from . import classify_checks as CC
    from .checks_classify import PRES
    rng = random.Random(3)
    out = []
    while True:
        rec = CC.random_record(rng, max_len=20)
        cid, case, err = CC.observe_case((0, rec, PRES[0], "api"))
        if case and any(o["pair"] for o in case["obs"]) and any(o["inter"] for o in case["obs"]):
            break
    k = next(i for i, o in enumerate(case["obs"]) if o["pair"])
    bad = copy.deepcopy(case); bad["obs"][k]["flags"][0][1] = not bad["obs"][k]["flags"][0][1]
    out.append(_expect("TraceClassify", [case], [bad], "C04", "TraceClassify / one flag flipped"))
    bad = copy.deepcopy(case); bad["obs"][k]["storm"][0][1] += 1
    out.append(_expect("TraceClassify", [case], [bad], "C0", "TraceClassify / storm thru moved by one step"))
    bad = copy.deepcopy(case); bad["obs"][k]["depth"][0][1] += 1
    out.append(_expect("TraceClassify", [case], [bad], "C03", "TraceClassify / depth off by one unit"))
    return out


def st_matching():
    from . import matching_checks as MM
    inst = {"E": [[1, 101], [1, 102], [2, 101], [2, 102]],
            "dur": [[[1, 101], 0], [[1, 102], 1], [[2, 101], 0], [[2, 102], 2]],
            "off": [[[1, 101], 2], [[1, 102], 1], [[2, 101], 1], [[2, 102], 2]]}
    t, err = MM.loop_trace(inst, 1, 0)
    assert t and len(t["proposals"]) >= 3, t
    bad = copy.deepcopy(t); bad["proposals"][0], bad["proposals"][-1] = bad["proposals"][-1], bad["proposals"][0]
    out = [_expect("TraceMatching", [t], [bad], "C02", "TraceMatching / two Propose events swapped")]
    bad = copy.deepcopy(t); del bad["proposals"][-1]
    out.append(_expect("TraceMatching", [t], [bad], "C02", "TraceMatching / last Propose event removed"))
    return out


def st_txn():
    good = {"id": "x", "events": [["read", 3], ["begin", 1], ["write", 5], ["read", 1], ["write", 2], ["commit", 1]],
            "readonly": False, "outcome": "ok"}
    bad = copy.deepcopy(good); bad["events"].insert(3, ["commit", 1])
    return [_expect("TraceTxn", [good], [bad], "C20", "TraceTxn / a COMMIT inserted between writes")]


def st_sim_pest_prov(chk):
    """uses the real CLI on one small dataset"""
    from . import hydro_checks as HY, sim_checks as SC, prov_checks as PV, pest_checks as PC
    behs = HY.behaviours(chk, "selftest dataset", HY.hydro_consts("TruthA", 14, "{14}", start="{2, 4, 7}", max_gap=1,
                                                                   force="TRUE"), simulate="num=60", workers=1)
    behs = [b for b in behs if HY._ok(b, "recOK", 2) and HY._ok(b, "riseOK", 2)]
    out = []
    idx, cases, problems = SC.one_dataset((0, behs[0], "both"))
    rise = [c for c in cases if c["kind"] == "rise"][0]
    bad = copy.deepcopy(rise); bad["rows"][-1][2] += 50
    out.append(_expect("TraceSim", [rise], [bad], "C17", "TraceSim / one simulated storage value changed"))
    rec = [c for c in cases if c["kind"] == "recession"][0]
    bad = copy.deepcopy(rec); bad["et"] = [v + 3 for v in bad["et"]]
    out.append(_expect("TraceSim", [rec], [bad], "C18", "TraceSim / ET series changed"))
    idx, pcases, problems = PC.one_dataset((0, behs[0]))
    pc = [c for c in pcases if c["shape"]["kind"] == "curves"][0]
    pc["sim"]["lens"] = [min(v, 22) for v in pc["sim"]["lens"]]
    bad = copy.deepcopy(pc); bad["pst"]["obs"][0], bad["pst"]["obs"][1] = bad["pst"]["obs"][1], bad["pst"]["obs"][0]
    out.append(_expect("TracePest", [pc], [bad], "C19", "TracePest / two observation lines swapped"))
    _, dt, delta, e0, prov, stat = PV._worker([(0, behs[0])])[0]
    p = prov[0]
    bad = copy.deepcopy(p); bad["rows"][0]["v"] += 40000
    out.append(_expect("TraceProvenance", [p], [bad], "C13", "TraceProvenance / one crossing value changed"))
    s = [c for c in stat if len(c["intervals"]) >= 2][0]
    bad = copy.deepcopy(s); bad["levels"][0]["v"][0] += 500
    out.append(_expect("TraceStationary", [s], [bad], "C05", "TraceStationary / one shifted crossing changed"))
    return out


def st_field():
    from . import field_checks as FF
    ts, err = FF.classify_and_trace(2, 8.0, 5.0)
    t = ts[0]
    r = FF._validate(t)
    if r["fails"]:
        raise MachineryError("selftest: field trace rejected")
    bad = copy.deepcopy(t); bad["flags"][5000][2] = not bad["flags"][5000][2]
    r = FF._validate(bad)
    if not any(f["clause"].startswith("C04") for f in r["fails"]):
        raise MachineryError("selftest TraceField: corrupted flag accepted")
    bad = copy.deepcopy(t); bad["inter"][3][1] += 1
    r2 = FF._validate(bad)
    if not any(f["clause"].startswith("C04") for f in r2["fails"]):
        raise MachineryError("selftest TraceField: corrupted interval accepted")
    return ["TraceField / one of 18 228 flags flipped: rejected (%s)" % r["fails"][0]["clause"],
            "TraceField / one interstorm thru moved: rejected"]


def st_load():
    from . import load_checks as LC
    t, n = LC.field_trace(2, 0, 0)
    r = LC._validate(t)
    if r["fails"]:
        raise MachineryError("selftest: load trace rejected")
    bad = copy.deepcopy(t)
    g = [e for e in bad["events"] if e["k"] == "grid" and e["hasLevel"]][777]
    g["lev"] += 50
    r = LC._validate(bad)
    if not any(f["clause"].startswith("C10") for f in r["fails"]):
        raise MachineryError("selftest TraceLoad: corrupted level accepted")
    return ["TraceLoad / one stored level changed by 5e-4 mm: rejected (%s)" % r["fails"][0]["clause"]]


def st_plot(chk):
    from . import hydro_checks as HY, plot_checks as PL
    behs = HY.behaviours(chk, "selftest dataset (plots)", HY.hydro_consts("TruthA", 14, "{14}", start="{2, 4, 7}", max_gap=1,
                                                                         force="TRUE"), simulate="num=60", workers=1)
    behs = [b for b in behs if HY._ok(b, "recOK", 2) and HY._ok(b, "riseOK", 2)]
    wd = workdir("selfplot")
    try:
        cases, problems = PL.one_dataset(0, behs[0], wd)
    finally:
        rm(wd)
    c = [x for x in cases if x["kind"] == "recession"][0]
    bad = copy.deepcopy(c); bad["lines"][0][-1][0] += 30; bad["expected"] = bad["lines"]
    return [_expect("TracePlot", [c], [bad], "PLOT", "TracePlot / one drawn point moved by 3 s")]


def run_all(chk):
    lines = []
    lines += st_classify()
    lines += st_matching()
    lines += st_txn()
    lines += st_field()
    lines += st_load()
    lines += st_sim_pest_prov(chk)
    lines += st_plot(chk)
    return lines


def main():
    chk = Check("SELFTEST", "thorough")
    try:
        lines = run_all(chk)
    except MachineryError as e:
        print("SELFTEST FAILED:", e)
        return 2
    for l in lines:
        print("selftest ok:", l)
    with open(os.path.join(os.path.dirname(os.path.dirname(os.path.abspath(__file__))), "evidence", "selftest.txt"), "w") as f:
        f.write("\n".join(lines) + "\n")
    return 0


if __name__ == "__main__":
    import sys
    sys.exit(main())
