"""Registered checks C12, C05, C08, C09, C13."""
from . import regrid_checks as RG
from . import curves_checks as CU


def dispatch_replay(chk, rp):
    kind = rp.get("kind")
    if kind == "regrid":
        return RG.replay_file(chk, rp)
    if kind == "curves":
        return CU.replay_file(chk, rp)
    if rp.get("kind") == "testtrace":
        from . import testtrace as TT
        return TT.replay_file(chk, rp)
    if kind == "prov":
        from . import prov_checks as PV
        return PV.replay_file(chk, rp)
    raise SystemExit("cannot replay kind %r; re-run the check" % kind)


REGISTRY = {
    "C12": {"run": RG.c12, "replay": dispatch_replay},
    "C05": {"run": CU.c05, "replay": dispatch_replay},
    "C08": {"run": CU.c08, "replay": dispatch_replay},
}
