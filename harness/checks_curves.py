"""Registered checks C12, C05, C08, C09, C13."""
from . import regrid_checks as RG


def dispatch_replay(chk, rp):
    kind = rp.get("kind")
    if kind == "regrid":
        return RG.replay_file(chk, rp)
    raise SystemExit("cannot replay kind %r; re-run the check" % kind)


REGISTRY = {
    "C12": {"run": RG.c12, "replay": dispatch_replay},
}
