"""Registered check C20."""
from .txn_checks import REGISTRY  # noqa
