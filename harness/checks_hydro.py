"""Registered checks C06 (C07, C09, C13 follow)."""
from . import hydro_checks as HY
from . import shift_checks as SH
from . import ref_checks as RF
from . import prov_checks as PV


def dispatch_replay(chk, rp):
    if rp.get("kind") == "hydro":
        return HY.replay_file(chk, rp)
    if rp.get("kind") == "ref":
        return RF.replay_file(chk, rp)
    if rp.get("kind") == "shift":
        return SH.replay_file(chk, rp)
    if rp.get("kind") == "testtrace":
        from . import testtrace as TT
        return TT.replay_file(chk, rp)
    if rp.get("kind") == "prov":
        return PV.replay_file(chk, rp)
    raise SystemExit("cannot replay kind %r; re-run the check" % rp.get("kind"))


REGISTRY = {
    "C06": {"run": HY.c06, "replay": dispatch_replay},
    "C07": {"run": SH.c07, "replay": dispatch_replay},
    "C09": {"run": RF.c09, "replay": dispatch_replay},
    "C13": {"run": PV.c13, "replay": dispatch_replay},
}
