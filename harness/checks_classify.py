"""Registered checks C01-C04."""
from . import classify_checks as CC
from . import matching_checks as MM
from . import field_checks as FF

INV_ALL = ["OneToOne", "LoopInvariant", "Progress", "KeysUnique", "StableAtEnd", "OptimalAtEnd",
           "AlgorithmsEqualDefinitions", "InterstormsSound"]


# presentations: (dt, s, j) chosen so that every value is a binary fraction:
# at-threshold classes are exact in floating point
def pres(dt, s, j, **kw):
    d = dict(dt=dt, s_real=s, j_real=j, S=4, J=4)
    d.update(kw)
    return d


PRES = [pres(1800, 4.0, 8.0), pres(3600, 8.0, 2.0, gap=2, gap_rain=0, zone="Africa/Lagos"),
        pres(900, 0.5, 16.0, gap_rain=4, e0=1700000100 - 1700000100 % 900)]


# a threshold of exactly zero is a legitimate setting ("every wet step belongs to a storm", "every increase is a
# rise"); the lattice thresholds S / J are 0 as well, so Classify.tla is evaluated with the same zero
PRES_ZERO = [pres(1800, 0.0, 8.0, S=0), pres(3600, 8.0, 0.0, J=0, gap=2, gap_rain=0),
             pres(900, 0.0, 0.0, S=0, J=0, gap_rain=4, e0=1700000100 - 1700000100 % 900)]


PRES_20MIN = [pres(1200, 4.0, 3.0, e0=1700000400), pres(1200, 4.0, 3.0, e0=531274800, zone="Etc/GMT+5")]


def nt_pairs(rec, outs):
    return any(o["pair"] for out in outs for o in out)


def nt_inter(rec, outs):
    return any(o["inter"] for out in outs for o in out)


def consts(n1, n2, rain, inc):
    return {"N1": str(n1), "N2": str(n2), "RainVals": rain, "IncVals": "<- " + inc, "S": "4", "J": "4",
            "Emit": "TRUE"}


def dispatch_replay(chk, rp):
    kind = rp.get("kind")
    if kind == "classify_record":
        CC.replay_file(chk, rp)
    elif kind in ("classify_trace", "classify_total"):
        if kind == "classify_total":
            rp = dict(rp, case={"id": 0, "rec": rp["rec"]})
        CC.replay_trace_case(chk, rp)
    elif kind == "matching_instance":
        MM.replay_file(chk, rp)
    elif kind == "field":
        FF.replay_file(chk, rp)
    elif kind == "testtrace":
        from . import testtrace as TT
        TT.replay_file(chk, rp)
    elif kind == "load_then_classify":
        from . import load_checks as LC
        LC.replay_load_then_classify(chk, rp)
    else:
        raise SystemExit("cannot replay kind %r" % kind)


def c01(chk, tier):
    q = tier == "quick"
    chk.cov["rule"] = (
        "A: TLC enumerates every record of 1 stretch <= N1 samples or 2 stretches <= N2 samples each "
        "over {no rain, heavy} x {flat, fast}, explores every proposal order, and each record is "
        "replayed into the real load+classify (API path; a sample through the CLI entry point on a "
        "file dataset); B: random long multi-gap records and the two field datasets at a threshold "
        "sweep are classified by the real code and TLC judges the recorded tables. "
        "non-trivial = >= 1 storm-rise pair recorded")
    CC.replay_emitted(chk, "MCClassify {0,5}x{0,5}", consts(7 if q else 9, 3 if q else 4, "{0, 5}", "IncFlatFast"),
                      INV_ALL, ["Termination"], PRES[:2] if q else PRES, CC.KEYS["C01"],
                      cli_every=10 if q else 5, nontrivial=nt_pairs)
    CC.code_to_spec(chk, 300 if q else 3000, PRES, prefixes=("C01",))
    CC.code_to_spec(chk, 90 if q else 900, PRES_ZERO, prefixes=("C01",))
    FF.field_sweep(chk, tier, prefixes=("C01",))
    # every input triple that Load.tla accepts (different steps, offsets, gaps) must classify: totality
    from . import load_checks as LC
    LC.classify_all_loadable(chk, tier)


def c02(chk, tier):
    q = tier == "quick"
    chk.cov["rule"] = (
        "A: TLC enumerates every candidate graph on NSxNR storms/rises with every duration / "
        "start-offset assignment (ties included) and every proposal order; every instance is "
        "replayed into the real find_stable_matching under relabelings, and a geometric family "
        "(intervals with start and length) into disambiguate_matching; records with contention "
        "go through load+classify. B: TLC judges NoBlockingPair / storm-optimality of what the "
        "code recorded on random records and field data. non-trivial = instance with contention")
    # every instance size, every proposal order: invariants, stability, storm-optimality, termination bound
    from . import tlaps
    tlaps.prove(chk, ["Matching.tla", "MatchingProof.tla"],
                [("MatchingProof.tla", "the loop of Matching.tla keeps its invariants, ends within |E| iterations with a stable "
                                       "matching (ties allowed) which is storm-optimal when there are no ties, for arbitrary "
                                       "instances and any proposal order")])
    for ns, nr, mp_ in ((2, 2, 2), (2, 3, 1)) if q else ((2, 2, 3), (2, 3, 2), (3, 2, 2)):
        MM.replay_matching(chk, "MCMatching %dx%d prefs 0..%d" % (ns, nr, mp_),
                           {"NS": str(ns), "NR": str(nr), "MaxPref": str(mp_), "Geo": "FALSE",
                            "MaxStart": "0", "MaxLen": "1", "Emit": "TRUE"}, geo=False)
    for ns, nr, ms, ml in ((2, 2, 2, 2),) if q else ((2, 2, 3, 3), (2, 3, 2, 2), (3, 2, 2, 2)):
        MM.replay_matching(chk, "MCMatching geometric %dx%d" % (ns, nr),
                           {"NS": str(ns), "NR": str(nr), "MaxPref": "0", "Geo": "TRUE",
                            "MaxStart": str(ms), "MaxLen": str(ml), "Emit": "TRUE"}, geo=True)
    CC.replay_emitted(chk, "MCClassify {0,5}x{0,5}", consts(7 if q else 10, 2, "{0, 5}", "IncFlatFast"),
                      ["StableAtEnd", "OptimalAtEnd", "Progress"], [], PRES[:1] if q else PRES[:2],
                      CC.KEYS["C02"], nontrivial=nt_pairs)
    CC.code_to_spec(chk, 300 if q else 3000, PRES, prefixes=("C02",), max_len=48)
    CC.code_to_spec(chk, 90 if q else 900, PRES_ZERO, prefixes=("C02",), max_len=48)
    FF.field_sweep(chk, tier, prefixes=("C02",))


FINE = 4194304      # 2^22 lattice units per threshold: S + 1 is "just above" (2.4e-7 relative)
PRES_FINE = [pres(1800, 4.0, 8.0, S=FINE, J=FINE, gap_rain=FINE + 1, gap_jump=2 * FINE),
             pres(3600, 8.0, 2.0, S=FINE, J=FINE, gap=2, gap_rain=0, gap_jump=2 * FINE, zone="Africa/Lagos")]


def c03(chk, tier):
    q = tier == "quick"
    chk.cov["rule"] = (
        "A: TLC enumerates every record over rain {none, AT threshold, heavy, heavier} x increments "
        "{fall, AT threshold, fast}; the storm / rise / depth rows committed by the real classify must "
        "equal the specification's maximal runs. B: as C01. non-trivial = >= 1 pair recorded")
    CC.replay_emitted(chk, "MCClassify rain{0,4,5,7} inc{-1,J,J+1}",
                      {"N1": "4" if q else "5", "N2": "2", "RainVals": "{0, 4, 5, 7}",
                       "IncVals": "<- IncFallAtFast", "S": "4", "J": "4", "Emit": "TRUE"},
                      ["AlgorithmsEqualDefinitions", "KeysUnique"], [], PRES[:2] if q else PRES,
                      CC.KEYS["C03"], cli_every=10 if q else 5, nontrivial=nt_pairs)
    # values JUST above a threshold (one lattice unit in 2^22): a tolerance-based comparison would drop them
    CC.replay_emitted(chk, "MCClassify fine lattice: rain{0,S,S+1,5S/4} inc{-1,J,J+1}",
                      {"N1": "4" if q else "5", "N2": "2", "RainVals": "{0, %d, %d, %d}" % (FINE, FINE + 1, 5 * FINE // 4),
                       "IncVals": "<- IncFallAtFast", "S": str(FINE), "J": str(FINE), "Emit": "TRUE"},
                      ["AlgorithmsEqualDefinitions", "KeysUnique"], [], PRES_FINE, CC.KEYS["C03"], nontrivial=nt_pairs)
    CC.code_to_spec(chk, 300 if q else 3000, PRES, prefixes=("C03",))
    CC.code_to_spec(chk, 90 if q else 900, PRES_ZERO, prefixes=("C03",))
    FF.field_sweep(chk, tier, prefixes=("C03",))


def c04(chk, tier):
    q = tier == "quick"
    chk.cov["rule"] = (
        "A: TLC enumerates every record over rain {none, drizzle, heavy} x increments "
        "{fall, AT threshold, fast}; flags and interstorm rows committed by the real classify must equal "
        "the declarative clean-dry definition (which TLC shows equal to the online machine). "
        "B: as C01, field data step by step. non-trivial = >= 1 interstorm interval")
    # PRES_20MIN: a 20-minute grid (step length in hours is not a binary fraction) with -j 3: threshold x step
    # is exactly 1 mm, so the at-threshold class is exact there too (value-level conformance became possible
    # once the flags used the increment form, see D8)
    CC.replay_emitted(chk, "MCClassify rain{0,2,5} inc{-1,J,J+1}",
                      {"N1": "5" if q else "6", "N2": "2" if q else "3", "RainVals": "{0, 2, 5}",
                       "IncVals": "<- IncFallAtFast", "S": "4", "J": "4", "Emit": "TRUE"},
                      ["AlgorithmsEqualDefinitions", "InterstormsSound", "KeysUnique"], [],
                      (PRES[:2] if q else PRES) + PRES_20MIN, CC.KEYS["C04"], cli_every=10 if q else 5, nontrivial=nt_inter)
    if not q:
        CC.replay_emitted(chk, "MCClassify rain{0,2} inc{0,J+1}", consts(9, 4, "{0, 2}", "IncFlatFast"),
                          ["AlgorithmsEqualDefinitions", "InterstormsSound"], [], PRES[:1], CC.KEYS["C04"],
                          nontrivial=nt_inter)
    # increments JUST above the threshold (one unit in 2^22) must count as rises
    CC.replay_emitted(chk, "MCClassify fine lattice: rain{0,2,S+1} inc{-1,J,J+1}",
                      {"N1": "4" if q else "5", "N2": "2", "RainVals": "{0, 2, %d}" % (FINE + 1),
                       "IncVals": "<- IncFallAtFast", "S": str(FINE), "J": str(FINE), "Emit": "TRUE"},
                      ["AlgorithmsEqualDefinitions", "InterstormsSound"], [], PRES_FINE[:1], CC.KEYS["C04"], nontrivial=nt_inter)
    # records of every length: the online machine against the streaming form of the definition
    # (finite state space, unbounded behaviours: exhaustive exploration is a proof)
    from . import tlc
    invs = ["MachineEqualsDefinition", "NeverBothFlags", "WetIsNeverMystery"]
    r = tlc.run("OnlineFlags", "SPECIFICATION Spec\n" + "".join("INVARIANT %s\n" % i for i in invs) + "CHECK_DEADLOCK FALSE\n",
                workers=1, invariants=invs)
    chk.add_tlc(r, "OnlineFlags (all lengths)")
    if not q:
        # the repository's own tests: the classified datasets they leave behind, judged like the field sweep
        from . import testtrace as TT
        TT.judge(chk, ("C04",), k_expr="test_classify or test_set_curvature", parts=("classify",))
    if r.get("violated"):
        chk.violation("OnlineFlags.tla: the online machine differs from the streaming definition: " + r["error"][:400], {"kind": "tlc"})
    CC.code_to_spec(chk, 300 if q else 3000, PRES, prefixes=("C04",))
    CC.code_to_spec(chk, 90 if q else 900, PRES_ZERO, prefixes=("C04",))
    FF.field_sweep(chk, tier, prefixes=("C04",))


REGISTRY = {
    "C01": {"run": c01, "replay": dispatch_replay},
    "C02": {"run": c02, "replay": dispatch_replay},
    "C03": {"run": c03, "replay": dispatch_replay},
    "C04": {"run": c04, "replay": dispatch_replay},
}
