"""Trace validation of the repository's OWN test suite.

The suite is run unmodified with a pytest plugin (harness/pytest_snap.py) that copies, after each
test body, the dataset the test left behind.  Every distinct dataset is then judged by the same
trace specifications as the harness's own drivers: what `load` stored (TraceLoad.tla), the
classification (TraceField.tla), the curve tables (TraceProvenance.tla, TraceStationary.tla).
The tests' own assertions only look at a few rows or compare with frozen output; here every row
the tests' executions produced is held against the specification.
"""
import glob
import hashlib
import os
import sqlite3
import subprocess
import sys

from . import tlc
from . import present as P
from .common import MachineryError, REPO, VERIF, workdir, rm


def run_suite(snapdir, k_expr=None, procs=8):
    env = dict(os.environ)
    env["PYTHONPATH"] = VERIF + os.pathsep + REPO
    env["SPOWTD_VERIF_SNAPDIR"] = snapdir
    env["PYTHONDONTWRITEBYTECODE"] = "1"
    cmd = ["/venv/bin/python", "-m", "pytest", "-q", "-p", "no:cacheprovider", "-p", "harness.pytest_snap",
           "-n", str(procs), "spowtd/test"]
    if k_expr:
        cmd += ["-k", k_expr]
    p = subprocess.run(cmd, cwd=REPO, env=env, capture_output=True, text=True, timeout=1500)
    tail = (p.stdout + p.stderr).strip().splitlines()[-1:]
    return p.returncode, tail[0] if tail else ""


def _content_key(path):
    h = hashlib.sha1()
    for item in P.logical_dump(path):
        h.update(repr(item).encode())
    return h.hexdigest()


def _which_sample(conn):
    """the sample dataset (1 or 2) a snapshot was loaded from, by its first water-level epoch"""
    from . import field_checks as FF
    row = conn.execute("SELECT min(epoch), count(*) FROM water_level").fetchone()
    if not row or row[0] is None:
        return None
    for k in (1, 2):
        src = FF.loaded(k)
        if src.execute("SELECT min(epoch), count(*) FROM water_level").fetchone() == tuple(row):
            return k
    return None


def judge(chk, prefixes, k_expr=None, parts=("load", "classify", "curves")):
    """run the suite, judge the distinct datasets; violations only for clauses starting with `prefixes`"""
    from . import field_checks as FF
    from . import load_checks as LC
    from . import prov_checks as PV
    wd = workdir("snap")
    try:
        rc, tail = run_suite(wd, k_expr)
        chk.notes.append("repository test suite under the snapshot plugin (-k %r): %s" % (k_expr, tail))
        if glob.glob(os.path.join(wd, "*.err")):
            chk.notes.append("snapshots not taken: %d" % len(glob.glob(os.path.join(wd, "*.err"))))
        snaps = {}
        for path in sorted(glob.glob(os.path.join(wd, "*.sqlite3"))):
            nodeid, status = open(path[:-8] + ".txt").read().splitlines()[:2]
            snaps.setdefault(_content_key(path), [path, []])[1].append(nodeid + (" (failed)" if status != "passed" else ""))
        if not snaps:
            raise MachineryError("the repository's tests left no dataset to observe: %s" % tail)
        chk.count("test_executions_observed", sum(len(v[1]) for v in snaps.values()))
        chk.count("distinct_datasets_observed", len(snaps))
        tasks = []       # (kind, payload, label, key, tests)
        for key, (path, tests) in sorted(snaps.items()):
            conn = sqlite3.connect(path)
            label = "dataset left by %s%s" % (tests[0], " (+%d more tests)" % (len(tests) - 1) if len(tests) > 1 else "")
            tag = "test " + tests[0].split("::")[-1][:60]
            try:
                k = _which_sample(conn)
                thr = conn.execute("SELECT storm_rain_threshold_mm_h, rising_jump_threshold_mm_h FROM thresholds").fetchone()
                has_grid = conn.execute("SELECT count(*) FROM zeta_grid").fetchone()[0] > 0
                has_curves = (conn.execute("SELECT count(*) FROM rising_interval").fetchone()[0] +
                              conn.execute("SELECT count(*) FROM recession_interval").fetchone()[0]) > 0
                if "load" in parts and k is not None:
                    t, n = LC.field_trace(k, conn=conn)
                    t["id"] = "%s: load" % tag
                    tasks.append(("load", (t, n), label, key, tests))
                if "classify" in parts and thr is not None:
                    for t in FF.traces_from_conn(conn, tag, thr[0], thr[1]):
                        tasks.append(("classify", t, label, key, tests))
                if "curves" in parts and has_grid and has_curves:
                    prov, stat = PV.cases_from_conn(conn, tag)
                    tasks.append(("prov", prov, label, key, tests))
                    tasks.append(("stat", stat, label, key, tests))
            finally:
                conn.close()

        def work(task):
            kind, payload = task[0], task[1]
            if kind == "load":
                return LC._validate(payload[0])
            if kind == "classify":
                return FF._validate(payload)
            return PV.validate(chk, "TraceProvenance" if kind == "prov" else "TraceStationary", payload,
                               "%s on %s" % (kind, task[2][:80]))
        from concurrent.futures import ThreadPoolExecutor
        with ThreadPoolExecutor(max_workers=8) as ex:
            results = list(ex.map(work, tasks))
        for (kind, payload, label, key, tests), res in zip(tasks, results):
            if kind == "load":
                chk.add_tlc(res, "TraceLoad " + payload[0]["id"])
                chk.count("traces_validated_against_impl"); chk.count("evaluations", payload[1])
                fails = res["fails"]
            elif kind == "classify":
                chk.add_tlc(res, "TraceField " + payload["id"])
                chk.count("traces_validated_against_impl"); chk.count("evaluations", len(payload["rain"]))
                if payload["pair"] and payload["inter"]:
                    chk.count("distinct_nontrivial")
                fails = res["fails"]
            else:
                chk.count("traces_validated_against_impl", len(payload))
                chk.count("evaluations", sum(len(c.get("rows", c.get("levels", []))) for c in payload))
                chk.count("distinct_nontrivial", sum(1 for c in payload if len(c.get("members", c.get("intervals", []))) >= 2))
                fails = res
            _report(chk, fails, prefixes, label, key, tests)
        chk.sample({"observed_tests": sorted(t for v in snaps.values() for t in v[1])[:12], "distinct_datasets": len(snaps)})
    finally:
        rm(wd)


def _report(chk, fails, prefixes, label, key, tests):
    seen = set()
    for f in fails:
        if not f["clause"].startswith(prefixes) or f["clause"] in seen:
            continue
        seen.add(f["clause"])
        chk.violation("TLC rejects the %s: %s (item %s)" % (label, f["clause"], f["stretch"]),
                      {"kind": "testtrace", "tests": tests, "clause": f["clause"], "item": f["stretch"]})


def replay_file(chk, rp):
    """re-run the tests that left the rejected dataset and judge again"""
    names = sorted({t.split("::")[-1].split("[")[0] for t in rp["tests"]})
    judge(chk, (chk.prop,) if chk.prop.startswith("C") else ("C",), k_expr=" or ".join(names))
    chk.count("distinct_nontrivial", 0)


def tt(chk, tier):
    chk.cov["rule"] = ("the repository's own pytest suite, unmodified, run under a plugin that copies the dataset each test leaves "
                       "behind; every distinct dataset is judged by TraceLoad / TraceField / TraceProvenance / TraceStationary")
    judge(chk, ("C",))


REGISTRY = {"TT": {"run": tt, "replay": replay_file}}
