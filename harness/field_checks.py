"""Code -> specification on the repository's two field datasets: the real
load + classify at a sweep of threshold pairs, every per-sample flag and
every table row judged by TLC (TraceField.tla, one state per sample)."""
import io
import json
import os
import random
import sqlite3
from concurrent.futures import ThreadPoolExecutor

import numpy as np

from . import tlc
from .common import MachineryError, REPO, seed, workdir, rm, import_repo

import_repo()

KR = 100000      # rain fixed point
KZ = 1000000     # level fixed point
DATA = os.path.join(REPO, "spowtd", "test", "sample_data")
_loaded = {}


def _read(kind, k):
    with open(os.path.join(DATA, "%s_%d.txt" % (kind, k)), encoding="utf-8-sig") as f:
        return f.read()


def loaded(k, gaps=0, gseed=0):
    """in-memory dataset k after the real `load`; `gaps` > 0 removes that many
    blocks of water-level rows first (several gap-free stretches)"""
    import spowtd.load as load_mod
    key = (k, gaps, gseed)
    if key not in _loaded:
        z = _read("water_level", k)
        if gaps:
            lines = z.splitlines()
            head, rows = lines[0], lines[1:]
            rng = random.Random(gseed)
            cut = set()
            for _ in range(gaps):
                a = rng.randrange(100, len(rows) - 400)
                cut.update(range(a, a + rng.choice([1, 2, 3, 7, 40, 300])))
            rows = [r for i, r in enumerate(rows) if i not in cut]
            z = "\n".join([head] + rows) + "\n"
        conn = sqlite3.connect(":memory:", check_same_thread=False)
        load_mod.load_data(conn, io.StringIO(_read("precipitation", k)),
                           io.StringIO(_read("evapotranspiration", k)), io.StringIO(z), "Africa/Lagos")
        _loaded[key] = conn
    return _loaded[key]


def traces_from_conn(conn, tag, s, j):
    """per-stretch TraceField traces from a classified dataset (thresholds s, j as given to classify)"""
    (dt,) = conn.execute("SELECT time_step_s FROM time_grid").fetchone()
    dt_h = dt / 3600.0
    thr = j * dt_h
    labels = [r[0] for r in conn.execute(
        "SELECT DISTINCT data_interval FROM grid_time WHERE data_interval IS NOT NULL ORDER BY 1")]
    storms = conn.execute("SELECT start_epoch, thru_epoch FROM storm").fetchall()
    ivals = conn.execute("SELECT start_epoch, interval_type, thru_epoch FROM zeta_interval").fetchall()
    pairs = conn.execute("SELECT interval_start_epoch, storm_start_epoch FROM zeta_interval_storm").fetchall()
    depth = dict(conn.execute("SELECT storm_start_epoch, total_depth_mm FROM storm_total_rain_depth").fetchall())
    flags = {r[0]: r[1:] for r in conn.execute(
        "SELECT start_epoch, is_jump, is_mystery_jump, is_interstorm FROM grid_time_flags")}
    traces = []
    for lab in labels:
        rows = conn.execute(
            """SELECT gt.epoch, wl.zeta_mm, ri.rainfall_intensity_mm_h FROM grid_time gt
               JOIN rainfall_intensity ri ON ri.from_epoch = gt.epoch
               JOIN water_level wl ON wl.epoch = gt.epoch
               WHERE gt.data_interval = ? ORDER BY gt.epoch""", (lab,)).fetchall()
        if not rows:
            continue
        ep = np.array([r[0] for r in rows])
        z = np.array([r[1] for r in rows], dtype=float)
        rain = np.array([r[2] for r in rows], dtype=float)
        idx = {int(e): i + 1 for i, e in enumerate(ep)}
        lo, hi = int(ep[0]), int(ep[-1])
        inc = np.diff(z)

        def pos(e):   # 1-based sample index; an epoch one step past the end maps to m+1
            e = int(e)
            return idx.get(e, (e - lo) // dt + 1)
        mine = lambda e: lo <= e <= hi
        t = {
            "id": "%s s=%g j=%g stretch=%d" % (tag, s, j, lab), "band": 2,
            "S": int(round(s * KR)), "J": int(round(thr * KZ)),
            "rain": [int(round(x * KR)) for x in rain], "inc": [int(round(x * KZ)) for x in inc],
            "hres": [bool(x > s) for x in rain], "wres": [bool(x > 0) for x in rain], "jres": [bool(x > thr) for x in inc],
            "flags": [[bool(v) for v in flags.get(int(e), (None, None, None))] for e in ep],
            "storm": [[pos(a), pos(b)] for a, b in storms if mine(a)],
            "rise": [[pos(a), pos(b)] for a, typ, b in ivals if typ == "storm" and mine(a)],
            "inter": [[pos(a), pos(b)] for a, typ, b in ivals if typ == "interstorm" and mine(a)],
            "pair": [[pos(a), pos(b)] for a, b in pairs if mine(a)],
            "depth": [[pos(a), int(round(d / dt_h * KR))] for a, d in depth.items() if mine(a)],
            "depthTol": 64,
        }
        # JSON arrays of length 0/1 are fine for the spec (sequences)
        traces.append(t)
    return traces


def classify_and_trace(k, s, j, gaps=0, gseed=0):
    """returns (list of per-stretch trace dicts, error)"""
    import spowtd.classify as classify_mod
    src = loaded(k, gaps, gseed)
    conn = sqlite3.connect(":memory:")
    src.backup(conn)
    try:
        classify_mod.classify_intervals(conn, storm_rain_threshold_mm_h=s, rising_jump_threshold_mm_h=j)
    except Exception as e:  # noqa
        return None, "%s: %s" % (type(e).__name__, str(e)[:300])
    traces = traces_from_conn(conn, "field%d" % k, s, j)
    conn.close()
    return traces, None


def _validate(trace):
    wd = workdir("field")
    try:
        path = os.path.join(wd, "t.json")
        with open(path, "w") as f:
            json.dump(trace, f)
        cfg = "SPECIFICATION Spec\nPOSTCONDITION AllConsumed\nCHECK_DEADLOCK FALSE\n"
        res = tlc.run("TraceField", cfg, workers=1, env={"TRACE_FILE": path}, timeout=1200, heap="2g")
        if res.get("violated") or not res["ok"] or res["distinct"] != len(trace["rain"]) + 2:
            raise MachineryError("TraceField did not consume the whole trace %s: %s" % (trace["id"], res["tail"][-800:]))
        return res
    finally:
        rm(wd)


def sweep_points(tier):
    if tier == "quick":
        return [(2, 4.0, 5.0, 0), (2, 8.0, 0.5, 0), (1, 2.0, 2.0, 0)]
    pts = [(k, s, j, 0) for k in (1, 2) for s in (2.0, 4.0, 8.0, 12.0) for j in (0.5, 2.0, 5.0, 8.0)]
    pts += [(k, s, j, g) for k in (1, 2) for (s, j) in ((4.0, 2.0), (8.0, 5.0)) for g in (3, 12)]
    return pts


def field_sweep(chk, tier, prefixes):
    traces, meta = [], {}
    for k, s, j, g in sweep_points(tier):
        ts, err = classify_and_trace(k, s, j, gaps=g, gseed=seed() + g)
        chk.count("evaluations")
        if err:
            if chk.prop == "C01":
                chk.violation("classify failed on field dataset %d at -s %g -j %g (gaps carved: %d): %s" % (k, s, j, g, err),
                              {"kind": "field", "dataset": k, "s": s, "j": j, "gaps": g, "gseed": seed() + g,
                               "detail": err})
            else:
                chk.count("not_judged_classification_raised")
            continue
        for t in ts:
            traces.append(t)
            meta[t["id"]] = (k, s, j, g)
    with ThreadPoolExecutor(max_workers=10) as ex:
        results = list(ex.map(_validate, traces))
    for t, res in zip(traces, results):
        chk.add_tlc(res, "TraceField " + t["id"])
        chk.count("traces_validated_against_impl")
        if t["pair"] and t["inter"]:
            chk.count("distinct_nontrivial")
        for f in res["fails"]:
            if f["clause"].startswith(prefixes):
                k, s, j, g = meta[t["id"]]
                chk.violation("TLC rejects the field-data classification %s at sample %s: %s" % (
                    t["id"], f["stretch"], f["clause"]),
                    {"kind": "field", "dataset": k, "s": s, "j": j, "gaps": g, "gseed": seed() + g,
                     "clause": f["clause"], "sample": f["stretch"]})
    if traces:
        t = traces[0]
        chk.sample({"field_trace": t["id"], "samples": len(t["rain"]), "storms": len(t["storm"]),
                    "interstorms": len(t["inter"]), "first_flags": t["flags"][:5]})


def replay_file(chk, rp):
    ts, err = classify_and_trace(rp["dataset"], rp["s"], rp["j"], rp.get("gaps", 0), rp.get("gseed", 0))
    chk.count("evaluations"); chk.count("distinct_nontrivial", 2)
    if err:
        print("replay:", err)
        if chk.prop == "C01":
            chk.violation("replayed: " + err, rp)
        return
    for t in ts:
        res = _validate(t)
        chk.add_tlc(res, "replay " + t["id"])
        chk.count("traces_validated_against_impl")
        for f in res["fails"]:
            print("replay:", f)
            if f["clause"].startswith(chk.prop):
                chk.violation("replayed: " + f["clause"], rp)
    chk.sample(rp)
