"""C20: every edge of the state graph TLC explores for Spowtd.tla is replayed
against the real CLI on a small dataset, with faults and kills injected at
write points; the statement streams are validated by TraceTxn.tla."""
import json
import multiprocessing as mp
import os
import shutil
import subprocess
import sys

from . import tlc
from . import present as P
from . import hydro_checks as HY
from . import faults as F
from .common import MachineryError, VERIF, seed, workdir, rm

PARAMS = """specific_yield:
  type: spline
  zeta_knots_mm: [-50.0, 20.0, 60.0, 100.0, 150.0]
  sy_knots: [0.1, 0.15, 0.25, 0.3, 0.6]
transmissivity:
  type: spline
  zeta_knots_mm: [-50.0, 50.0, 200.0, 1000.0]
  K_knots_km_d: [0.005, 1.0, 50.0, 80.0]
  minimum_transmissivity_m2_d: 7.0
"""


WHY = {   # Spowtd!Outcome -> (exception class name, message fragment)
    "integrity": ("IntegrityError", "constraint failed"),
    "no_grid": ("ValueError", "Discrete water level interval not yet set"),
    "no_intervals": ("ValueError", "empty series list"),
    "no_curvature": ("ValueError", "Site curvature must be set"),
    "no_curve": ("ValueError", "not enough values to unpack"),
}


def failure_matches(o, why):
    if o.exc is None or why not in WHY:
        return False
    cls, frag = WHY[why]
    return type(o.exc).__name__ == cls and frag in str(o.exc)


def state_key(st):
    return json.dumps(st["disk"], sort_keys=True)


class World:
    """concrete meaning of the abstract arguments for one base dataset"""

    def __init__(self, wd, beh):
        self.wd = wd
        self.beh = beh
        self.params = os.path.join(wd, "params.yml")
        with open(self.params, "w") as f:
            f.write(PARAMS)
        pres, rec = HY.presentation(beh, 1800, "UTC", P.epoch_of(2012, 6, 1))
        rain_rows, et_rows, level_rows = pres.series(rec)
        self.pres = pres
        files = P.Files(wd, rain_rows, et_rows, level_rows, "UTC", tag="base")
        self.base = os.path.join(wd, "base.sqlite3")
        o = P.cli(files.load_argv(self.base))
        if not o.ok:
            raise MachineryError("cannot load the base dataset: " + o.describe())
        s, j = pres.s_real, pres.j_real
        self.cls = {"a1": (repr(s), repr(j)), "a2": (repr(s * 1.5), repr(j))}
        self.grid = {"d1": "1.0", "d2": "0.5"}
        self.curv = {"c1": "1.0", "c2": "2.5"}
        self.ref = None

    def choose_ref(self):
        """a whole-mm level inside both curves (learned from a scratch run)"""
        db = os.path.join(self.wd, "probe.sqlite3")
        shutil.copy(self.base, db)
        for argv in (["classify", db, "-s", self.cls["a1"][0], "-j", self.cls["a1"][1]],
                     ["set-zeta-grid", db, "-d", "1.0"], ["rise", db], ["recession", db]):
            o = P.cli(argv)
            if not o.ok:
                raise MachineryError("probe workflow failed at %s: %s" % (argv[0], o.describe()))
        import sqlite3
        conn = sqlite3.connect(db)
        a = {round(r[0]) for r in conn.execute("SELECT zeta_mm FROM average_rising_depth")}
        b = {round(r[0]) for r in conn.execute("SELECT zeta_mm FROM average_recession_time")}
        conn.close()
        os.unlink(db)
        both = sorted(a & b)
        if not both:
            raise MachineryError("no level shared by both curves")
        self.ref = repr(float(both[len(both) // 2]))

    def argv(self, c, db, out):
        name, arg = c
        if name == "classify":
            return ["classify", db, "-s", self.cls[arg][0], "-j", self.cls[arg][1]]
        if name == "set-zeta-grid":
            return ["set-zeta-grid", db, "-d", self.grid[arg]]
        if name == "set-curvature":
            return ["set-curvature", db, self.curv[arg]]
        if name in ("rise", "recession"):
            return [name, db] + ([] if arg == "top" else ["-r", self.ref])
        if name == "simulate-rise":
            return ["simulate", "rise", db, self.params, "-o", out]
        if name == "simulate-recession":
            return ["simulate", "recession", db, self.params, "-o", out]
        if name == "pestfiles-curves":
            return ["pestfiles", "curves", db, self.params, "pst", "-o", out]
        raise KeyError(name)


def run_counted(world, c, db, plan):
    out = db + ".out"
    with F.injected(plan):
        o = P.cli(world.argv(c, db, out))
    if os.path.exists(out):
        os.unlink(out)
    return o


def fault_points(n, nw, thorough_all):
    """abstract pc (writes already done when the error strikes) -> concrete (at, when)"""
    pts = {0: (1, "before"), nw: (n, "after")}
    if n >= 2:
        pts[nw - 1] = (n, "before")
    if n >= 3:
        pts[1] = ((n + 1) // 2, "before")
    if thorough_all:
        return pts, [(k, "before") for k in range(1, n + 1)] + [(n, "after")]
    return pts, []


def process_state(args):
    """replay every outgoing edge of one idle abstract state from its snapshot"""
    world_wd, beh, ref, key, snap, out_edges, nw, tier, do_kills, idx = args
    wd = workdir("txn")
    res = {"edges": [], "targets": [], "streams": [], "problems": []}
    try:
        world = World.__new__(World)
        world.wd, world.beh = world_wd, beh
        world.params = os.path.join(world_wd, "params.yml")
        world.ref = ref
        w0 = json.load(open(os.path.join(world_wd, "world.json")))
        world.cls, world.grid, world.curv = w0["cls"], w0["grid"], w0["curv"]
        before = P.logical_dump(snap)
        n_case = 0
        for e in out_edges:
            c = tuple(e["c"])
            act = e["act"]
            db = os.path.join(wd, "w%d.sqlite3" % n_case)
            n_case += 1
            shutil.copy(snap, db)
            plan = F.Plan("count")
            o = run_counted(world, c, db, plan)
            after = P.logical_dump(db)
            ident = "%s %s from %s" % (c[0], c[1], key)
            res["streams"].append({"id": ident, "events": F.summarize(plan.log), "readonly": act in ("read", "readfail"),
                                   "outcome": "ok" if o.ok else "failed"})
            res["edges"].append((act, c))
            if act in ("doomed", "readfail"):
                if o.ok:
                    res["problems"].append((ident, "the specification says this command cannot complete here (%s), but it exited 0" % e["why"]))
                elif after != before:
                    res["problems"].append((ident, "a failing command (%s) changed the dataset" % o.describe()))
                elif not failure_matches(o, e["why"]):
                    res["problems"].append((ident, "failed as %s; the specification says: %s %s" % (
                        o.describe(), e["why"], WHY.get(e["why"]))))
                os.unlink(db)
                continue
            if act == "read":
                if not o.ok:
                    res["problems"].append((ident, "read-only command failed: " + o.describe()))
                elif after != before:
                    res["problems"].append((ident, "a read-only command changed the dataset"))
                elif plan.writes:
                    res["problems"].append((ident, "a read-only command issued %d writes" % plan.writes))
                os.unlink(db)
                continue
            # act == "begin": a step that completes
            if not o.ok:
                res["problems"].append((ident, "the step should complete here but failed: " + o.describe()))
                os.unlink(db)
                continue
            n = plan.writes
            tkey = state_key(e["target"])
            tsnap = os.path.join(wd, "t%d.sqlite3" % n_case)
            shutil.move(db, tsnap)
            res["targets"].append((tkey, e["target"], tsnap, after, ident))
            if n == 0:
                res["problems"].append((ident, "a completing step issued no write"))
                continue
            pts, allpts = fault_points(n, nw, tier == "thorough" and c[0] in ("classify", "rise", "recession") and idx % 7 == 0)
            todo = [("fail", at, when, pc) for pc, (at, when) in sorted(pts.items())]
            todo += [("fail", at, when, None) for at, when in allpts]
            if do_kills:
                kpcs = sorted(pts) if tier == "thorough" else [sorted(pts)[(idx + n_case) % len(pts)]]
                todo += [("kill", pts[pc][0], pts[pc][1], pc) for pc in kpcs]
                if tier == "thorough" and idx % 29 == 0:
                    # SIGKILL at every 4th concrete write point of this step (hot journals of every size)
                    todo += [("kill", at, "before", None) for at in range(1, n + 1, 4)]
            for mode, at, when, pc in todo:
                db = os.path.join(wd, "f.sqlite3")
                for suffix in ("", "-journal", "-wal", "-shm"):
                    if os.path.exists(db + suffix):
                        os.unlink(db + suffix)
                shutil.copy(snap, db)
                what = "%s at write point %d/%d (%s)%s" % (mode, at, n, when, "" if pc is None else " [pc %d]" % pc)
                if mode == "fail":
                    plan = F.Plan("fail", at, when)
                    o = run_counted(world, c, db, plan)
                    if o.ok:
                        res["problems"].append((ident, "%s: the command exited 0 although a write failed" % what))
                    res["streams"].append({"id": ident + " " + what, "events": F.summarize(plan.log),
                                           "readonly": False, "outcome": "failed"})
                else:
                    out = db + ".out"
                    p = subprocess.run([sys.executable, "-m", "harness.faults", "kill", str(at), when, "--"] +
                                       world.argv(c, db, out), cwd=VERIF, capture_output=True, text=True,
                                       env=dict(os.environ, PYTHONPATH=VERIF + ":" + os.environ.get("SPOWTD_REPO", "/repo")))
                    if p.returncode != -9:
                        res["problems"].append((ident, "%s: process was not killed (rc %s) %s" % (what, p.returncode, p.stderr[-300:])))
                        continue
                    res["hot_journal"] = res.get("hot_journal", 0) + int(os.path.exists(db + "-journal"))
                got = P.logical_dump(db)
                res["edges"].append((mode, c, at, when))
                if got != before:
                    res["problems"].append((ident, "%s: the dataset is neither its previous content nor the complete result"
                                            % what if got != after else
                                            "%s: the step's result is on disk although the step did not complete" % what))
                    continue
                # the step can be run again, on the very file the failed attempt left behind
                o = run_counted(world, c, db, F.Plan("count"))
                if not o.ok:
                    res["problems"].append((ident, "%s: re-running the step afterwards failed: %s" % (what, o.describe())))
                elif P.logical_dump(db) != after:
                    res["problems"].append((ident, "%s: re-running the step afterwards gave a different result" % what))
    finally:
        # target snapshots must survive: move them next to the world
        keep = []
        for tkey, tst, tsnap, dump, ident in res["targets"]:
            dst = os.path.join(world_wd, "cand_%d_%s" % (os.getpid(), os.path.basename(tsnap) + "_%d" % idx))
            shutil.move(tsnap, dst)
            keep.append((tkey, tst, dst, dump, ident))
        res["targets"] = keep
        rm(wd)
    return key, res


def two_files(chk, world, canon, wdw, tier):
    """TwoFiles.tla: commands on two dataset files interleaved in one process; each file must end with the
    canonical content of ITS OWN abstract state (a doomed or failing command on one file in between included)"""
    invs = ["Isolated"]
    res = tlc.run("TwoFiles", tlc.cfg_text({"ClsArgs": '{"a1"}', "GridArgs": '{"d1"}', "CurvArgs": '{"c1"}',
                                            "Refs": '{"top"}', "NW": "1"}, spec="Spec", invariants=invs), workers=4,
                  invariants=invs)
    chk.add_tlc(res, "TwoFiles (product of two Spowtd instances)")
    if res.get("violated"):
        chk.violation("TwoFiles.tla: " + res["error"][:400], {"kind": "tlc"})
        return
    import random
    rng = random.Random(seed() + 2)
    empty = {"cls": "none", "grid": "none", "curv": "none", "rise": {"ref": "none", "cls": "none", "grid": "none"},
             "rec": {"ref": "none", "cls": "none", "grid": "none"}}
    plans = {"A": [("classify", "a1"), ("set-zeta-grid", "d2"), ("rise", "top"), ("set-curvature", "c1"), ("recession", "r1")],
             "B": [("set-zeta-grid", "d1"), ("set-curvature", "c2"), ("classify", "a2"), ("recession", "top"), ("rise", "r1")]}
    for trial in range(3 if tier == "quick" else 20):
        dbs = {k: os.path.join(wdw, "two_%s_%d.sqlite3" % (k, trial)) for k in "AB"}
        state = {k: json.loads(json.dumps(empty)) for k in "AB"}
        for k in "AB":
            shutil.copy(world.base, dbs[k])
        todo = {k: list(v) for k, v in plans.items()}
        while todo["A"] or todo["B"]:
            k = rng.choice([x for x in "AB" if todo[x]])
            c = todo[k].pop(0)
            if rng.random() < 0.3:      # a doomed attempt on the OTHER file in between
                other = "B" if k == "A" else "A"
                P.cli(world.argv(("rise", "top") if state[other]["grid"] == "none" else ("set-zeta-grid", "d1"),
                                 dbs[other], dbs[other] + ".out"))
            o = P.cli(world.argv(c, dbs[k], dbs[k] + ".out"))
            chk.count("evaluations")
            if not o.ok:
                chk.violation("two files: %s %s on file %s failed: %s" % (c[0], c[1], k, o.describe()),
                              {"kind": "txn_two", "cmd": list(c)})
                break
            d = state[k]
            if c[0] == "classify":
                d["cls"] = c[1]
            elif c[0] == "set-zeta-grid":
                d["grid"] = c[1]
            elif c[0] == "set-curvature":
                d["curv"] = c[1]
            else:
                d["rise" if c[0] == "rise" else "rec"] = {"ref": c[1], "cls": d["cls"], "grid": d["grid"]}
        for k in "AB":
            key = state_key({"disk": state[k]})
            chk.count("traces_validated_against_impl")
            if key in canon and P.logical_dump(dbs[k]) != canon[key][1]:
                chk.violation("two files interleaved: file %s does not hold the canonical content of its own state %s" % (k, key),
                              {"kind": "txn_two", "file": k, "state": state[k]})
            elif key not in canon:
                raise MachineryError("two-files replay reached a state without canonical dump: " + key)
            os.unlink(dbs[k])


def tlaps_proof(chk):
    """SpowtdProof.tla: NoMixture proved by TLAPS for ARBITRARY argument sets (TLC explores two values each)"""
    import re
    import shutil as sh
    wd = workdir("tlaps")
    try:
        for f in ("Spowtd.tla", "SpowtdProof.tla", "SpowtdConfluent.tla"):
            sh.copy(os.path.join(VERIF, "spec", f), wd)
        total = 0
        for mod, what in (("SpowtdProof.tla", "Spec => []NoMixture and Spec => Atomic"),
                          ("SpowtdConfluent.tla", "Spec => []Confluent (the file is a function of the SET of completed steps)")):
            p = subprocess.run(["tlapm", "--threads", "4", mod], cwd=wd, capture_output=True, text=True, timeout=1500)
            out = p.stdout + p.stderr
            m = re.search(r"All (\d+) obligations proved", out)
            if not m:
                f = re.search(r"(\d+)/(\d+) obligations failed", out)
                raise MachineryError("TLAPS proof %s did not go through: %s" % (mod, f.group(0) if f else out[-400:]))
            total += int(m.group(1))
            chk.notes.append("TLAPS: %s proved for arbitrary argument sets (%s obligations, %s)" % (what, m.group(1), mod))
        chk.cov["tlaps_obligations"] = total
        chk.cov["tlaps_discharged"] = total
    except FileNotFoundError:
        chk.notes.append("tlapm not available: TLAPS proof skipped (no claim depends on it)")
    finally:
        rm(wd)


def c20(chk, tier):
    q = tier == "quick"
    tlaps_proof(chk)
    chk.level = "model_checking"
    chk.cov["rule"] = (
        "TLC explores Spowtd.tla exhaustively (every history of classify / set-zeta-grid / set-curvature / rise / "
        "recession with 2 argument values each, read-only commands, doomed attempts, Fail and Kill at every "
        "abstract write index) checking Atomic, NoMixture, Rerunnable, Confluent, and emits every edge. The harness "
        "replays EVERY edge against the real CLI on a small Hydro.tla dataset: each idle abstract state has one "
        "canonical logical dump; every history reaching it must reproduce it byte for byte (commutation, "
        "insensitivity to failed attempts); write index -> concrete statement {first, middle, last, after last} "
        "(thorough: every statement and every executemany row on a subset), faults in-process, kills in "
        "subprocesses (SIGKILL, hot journal); after each fault the dump must equal the previous content and the "
        "step must re-run to the complete result. Statement streams are validated by TraceTxn.tla. "
        "non-trivial = edge with an injected fault or kill")
    consts = {"ClsArgs": '{"a1", "a2"}', "GridArgs": '{"d1", "d2"}', "CurvArgs": '{"c1", "c2"}',
              "Refs": '{"top", "r1"}', "NW": "3"}
    cfg = tlc.cfg_text(consts, spec="SpecE", invariants=["NoMixture", "Rerunnable", "Confluent"],
                       properties=["Atomic", "Ends"])
    res = tlc.run("MCSpowtd", cfg, workers=1, invariants=["NoMixture", "Rerunnable", "Confluent"],
                  properties=["Atomic", "Ends"], timeout=1200)
    chk.add_tlc(res, "MCSpowtd")
    if res.get("violated"):
        chk.violation("Spowtd.tla violates a design property: " + res["error"][:600], {"kind": "tlc"})
        return
    nw = 3
    # idle-state graph from the emitted edges
    out_edges = {}
    states = {}
    chains = {}
    for e in res["emits"]:
        f, t = e["from"], e["to"]
        if f["cmd"] == "none":
            states[state_key(f)] = f
            if e["act"] in ("doomed", "read", "readfail"):
                out_edges.setdefault(state_key(f), {})[(e["act"], tuple(e["c"]))] = {"act": e["act"], "c": e["c"],
                                                                                      "why": e.get("why", "ok")}
            elif e["act"] == "begin":
                chains[(state_key(f), tuple(e["c"]))] = None
        if e["act"] == "commit":
            # the idle source of this chain: disk of `from` is unchanged during the transaction
            chains[(state_key(f), (f["cmd"], f["arg"]))] = t
    for (skey, c), target in chains.items():
        if target is None:
            raise MachineryError("no commit edge for chain %s %s" % (skey, c))
        out_edges.setdefault(skey, {})[("begin", c)] = {"act": "begin", "c": list(c), "target": target}
    n_edges_model = len(res["emits"])
    wdw = workdir("world")
    try:
        behs = HY.behaviours(chk, "MCHydro simulate depth 12 (dataset)", HY.hydro_consts(
            "TruthA", 12, "{12}", start="{4, 7}", max_gap=1, force="TRUE"), simulate="num=60", workers=1)
        cands = [b for b in behs if HY._ok(b, "recOK", 1) and HY._ok(b, "riseOK", 1) and HY._ok(b, "recOK", 2)
                 and HY._ok(b, "riseOK", 2)]
        if not cands:
            raise MachineryError("no assemblable behaviour for the base dataset")
        beh = min(cands, key=lambda b: sum(len(st["rain"]) for st in b["rec"]))
        world = World(wdw, beh)
        world.choose_ref()
        json.dump({"cls": world.cls, "grid": world.grid, "curv": world.curv}, open(os.path.join(wdw, "world.json"), "w"))
        empty_key = state_key({"disk": {"cls": "none", "grid": "none", "curv": "none",
                                        "rise": {"ref": "none", "cls": "none", "grid": "none"},
                                        "rec": {"ref": "none", "cls": "none", "grid": "none"}}})
        if empty_key not in states:
            raise MachineryError("initial state not among the emitted states")
        canon = {empty_key: (world.base, P.logical_dump(world.base), "load")}
        frontier = [empty_key]
        done = set()
        streams = []
        idx = 0
        hot = 0
        with mp.Pool(12) as pool:
            while frontier:
                jobs = []
                for key in frontier:
                    done.add(key)
                    jobs.append((wdw, beh, world.ref, key, canon[key][0], list(out_edges.get(key, {}).values()), nw,
                                 tier, True, idx))
                    idx += 1
                nxt = []
                for key, r in pool.imap_unordered(process_state, jobs):
                    hot += r.get("hot_journal", 0)
                    streams += r["streams"]
                    for ed in r["edges"]:
                        chk.count("evaluations")
                        chk.count("traces_validated_against_impl")
                        if ed[0] in ("fail", "kill"):
                            chk.count("distinct_nontrivial")
                            chk.count("faults_injected" if ed[0] == "fail" else "kills_injected")
                    for ident, msg in r["problems"]:
                        chk.violation("%s: %s" % (ident, msg), {"kind": "txn", "edge": ident, "detail": msg,
                                                                "behaviour": beh["ev"]})
                    for tkey, tst, tsnap, dump, ident in r["targets"]:
                        if tkey in canon:
                            if dump != canon[tkey][1]:
                                chk.violation(
                                    "%s reaches an abstract state that %s reached with a different dataset content "
                                    "(the result depends on the order of independent steps or on failed attempts)" % (
                                        ident, canon[tkey][2]),
                                    {"kind": "txn", "edge": ident, "other": canon[tkey][2], "state": tst})
                            os.unlink(tsnap)
                        else:
                            canon[tkey] = (tsnap, dump, ident)
                            if tkey not in done:
                                nxt.append(tkey)
                frontier = sorted(set(nxt))
        two_files(chk, world, canon, wdw, tier)
        chk.cov["abstract_idle_states_reached"] = len(canon)
        chk.cov["abstract_idle_states_in_model"] = len(states)
        chk.cov["model_edges"] = n_edges_model
        chk.cov["kills_with_hot_journal"] = hot
        if len(canon) != len(states):
            raise MachineryError("replay reached %d of %d idle states" % (len(canon), len(states)))
        chk.sample({"dataset_events": [(e["type"], e["n"]) for e in beh["ev"]], "reference_level_mm": world.ref,
                    "first_stream": streams[0] if streams else None})
        # statement streams judged by TLC
        for i, s in enumerate(streams):
            s["id"] = "%d %s" % (i, s["id"])
        path = os.path.join(wdw, "streams.json")
        json.dump(streams, open(path, "w"))
        r2 = tlc.run("TraceTxn", "SPECIFICATION Spec\nPOSTCONDITION AllConsumed\nCHECK_DEADLOCK FALSE\n", workers=1,
                     env={"TRACE_FILE": path}, timeout=1200)
        chk.add_tlc(r2, "TraceTxn on %d statement streams" % len(streams))
        if not r2["ok"] or r2["distinct"] != len(streams) + 1:
            raise MachineryError("TraceTxn did not consume all streams: " + r2["tail"][-600:])
        for f in r2["fails"]:
            chk.violation("statement stream of %s: %s" % (f["id"], f["clause"]), {"kind": "txn_stream", "id": f["id"],
                                                                                   "clause": f["clause"]})
    finally:
        rm(wdw)


REGISTRY = {"C20": {"run": c20, "replay": lambda chk, rp: (_ for _ in ()).throw(SystemExit("re-run the check: edges are replayed from snapshots"))}}
