"""Presenting abstract instances to the real code, and projecting the outcome.

Everything here drives /repo's working tree: text files -> `spowtd load` ->
`spowtd classify` ... either through `spowtd.user_interface.main` (the CLI
entry point, in-process) or through the same module functions the CLI calls
on an in-memory connection."""
import calendar
import contextlib
import io
import os
import sqlite3
import sys
import time

from .common import import_repo

import_repo()

FIXED_ZONES = {"UTC": 0, "Africa/Lagos": 3600, "Etc/GMT-7": 7 * 3600, "Etc/GMT+5": -5 * 3600,
               "Asia/Kolkata": 19800, "Asia/Kathmandu": 20700}


def fmt_time(epoch, zone="UTC"):
    t = time.gmtime(epoch + FIXED_ZONES[zone])
    return "%04d-%02d-%02d %02d:%02d:%02d" % t[:6]


def epoch_of(y, mo, d, h=0, mi=0, s=0):
    return calendar.timegm((y, mo, d, h, mi, s))


def series_text(header, rows, zone="UTC"):
    out = [header]
    for epoch, value in rows:
        out.append("%s,%s" % (fmt_time(epoch, zone), repr(float(value))))
    return "\n".join(out) + "\n"


class Outcome:
    def __init__(self, status, exc=None, stdout=""):
        self.status = status          # 0 ok, else non-zero
        self.exc = exc                # exception instance or None
        self.stdout = stdout

    @property
    def ok(self):
        return self.status == 0 and self.exc is None

    def et_of(self, i):
        """evapotranspiration (mm/h) on the step starting at absolute sample index i"""
        return 0.125

    def describe(self):
        if self.exc is None:
            return "exit %s" % self.status
        return "%s: %s" % (type(self.exc).__name__, str(self.exc)[:300])


def cli(argv, capture=False):
    """Run `spowtd <argv>` in-process through the CLI entry point."""
    import spowtd.user_interface as ui
    buf = io.StringIO()
    try:
        with open(os.devnull, "w") as devnull, contextlib.redirect_stderr(devnull):
            if capture:
                with contextlib.redirect_stdout(buf):
                    st = ui.main(list(argv))
            else:
                st = ui.main(list(argv))
        return Outcome(st or 0, None, buf.getvalue())
    except SystemExit as e:  # argparse
        code = e.code if isinstance(e.code, int) else (0 if e.code is None else 1)
        return Outcome(code, None if code == 0 else e, buf.getvalue())
    except BaseException as e:  # noqa: any exception is a failed command
        if isinstance(e, KeyboardInterrupt):
            raise
        return Outcome(1, e, buf.getvalue())


class Files:
    """Three input text files in a scratch directory."""

    def __init__(self, wd, rain_rows, et_rows, level_rows, zone="UTC", tag="d", bom=False):
        self.zone = zone
        self.paths = {}
        for key, header, rows in (("p", "datetime,precipitation rate (mm/h)", rain_rows),
                                  ("e", "datetime,evapotranspiration (mm/h)", et_rows),
                                  ("z", "datetime,wtd (mm)", level_rows)):
            path = os.path.join(wd, "%s_%s.txt" % (tag, key))
            with open(path, "w", encoding="utf-8-sig" if bom else "utf-8") as f:
                f.write(series_text(header, rows, zone))
            self.paths[key] = path

    def load_argv(self, db):
        return ["load", db, "-p", self.paths["p"], "-e", self.paths["e"], "-z", self.paths["z"],
                "--timezone", self.zone]


def load_api(connection, rain_rows, et_rows, level_rows, zone="UTC"):
    """load through the module function on an open connection (what the CLI calls)."""
    import spowtd.load as load_mod
    load_mod.load_data(
        connection=connection,
        precipitation_data_file=io.StringIO(series_text("datetime,p", rain_rows, zone)),
        evapotranspiration_data_file=io.StringIO(series_text("datetime,e", et_rows, zone)),
        water_level_data_file=io.StringIO(series_text("datetime,z", level_rows, zone)),
        time_zone_name=zone)


def table(conn, sql, args=()):
    return [tuple(r) for r in conn.execute(sql, args).fetchall()]


def logical_dump(db_or_conn):
    """Schema + all rows of all tables, sorted; floats by repr: a canonical
    description of the dataset file's logical content."""
    own = isinstance(db_or_conn, str)
    conn = sqlite3.connect(db_or_conn) if own else db_or_conn
    try:
        out = []
        objs = conn.execute(
            "SELECT type, name, sql FROM sqlite_master ORDER BY type, name").fetchall()
        for typ, name, sql in objs:
            out.append(("schema", typ, name, sql))
            if typ == "table":
                rows = conn.execute("SELECT * FROM %s" % name).fetchall()
                out.append(("rows", name, sorted(tuple(repr(v) for v in r) for r in rows)))
        return out
    finally:
        if own:
            conn.close()


# ---------------------------------------------------------------------------
# lattice records (Classify.tla instances)
# ---------------------------------------------------------------------------
class Presentation:
    """How an abstract record (list of stretches {rain:[units], inc:[units]})
    becomes three series.  Rain and level share the step `dt`; stretch k is
    followed by `gap` missing level samples; rain in the gap is `gap_rain`
    units (heavy rain inside a gap tempts a storm to run across it)."""

    def __init__(self, dt=1800, e0=None, s_real=4.0, j_real=8.0, S=4, J=4, gap=1, gap_rain=5,
                 base=96.0, zone="UTC", gap_jump=9, sub=1, stagger=0):
        self.dt, self.S, self.J = dt, S, J
        # sub > 1: the level file is sampled `sub` times per grid step; readings between grid instants lie on
        # the chord, and the readings next to a missing grid instant are present (the hole is then no longer
        # than a grid step, yet it is a gap in the level record: Load.tla, Q < P)
        self.sub = sub
        # stagger > 0: the logger reads the level `stagger` seconds after every rainfall instant (same step):
        # every grid value is then interpolated between two readings
        self.stagger = stagger
        self.e0 = epoch_of(2013, 3, 1) if e0 is None else e0
        self.s_real, self.j_real = s_real, j_real
        self.gap, self.gap_rain, self.base, self.zone, self.gap_jump = gap, gap_rain, base, zone, gap_jump
        # a threshold of exactly 0 ("any rain is a storm" / "any increase is a rise") is presented as S = 0 / J = 0:
        # the unit is then a fixed binary fraction instead of threshold / S
        if (S == 0) != (s_real == 0) or (J == 0) != (j_real == 0):
            raise ValueError("a zero threshold must be zero in both the lattice and the real units")
        self.rain_scale = s_real / S if S else 0.25
        self.inc_scale = j_real * (dt / 3600.0) / J if J else 0.25

    def et_of(self, i):
        """evapotranspiration (mm/h) on the step starting at absolute sample index i"""
        return 0.125

    def describe(self):
        return {k: getattr(self, k) for k in
                ("dt", "e0", "s_real", "j_real", "S", "J", "gap", "gap_rain", "base", "zone", "gap_jump", "sub")}

    def layout(self, rec):
        """absolute sample index of each stretch's first sample"""
        starts, p, last_gap = [], 0, 0
        for st in rec:
            starts.append(p)
            last_gap = st.get("gap_after", self.gap)
            p += len(st["rain"]) + last_gap
        total = p - last_gap
        return starts, total

    def presentable(self, rec):
        # load finds gaps relative to the smallest level step: needs one adjacent pair;
        return any(len(st["rain"]) >= 2 for st in rec)

    def series(self, rec):
        starts, total = self.layout(rec)
        t = lambda i: self.e0 + i * self.dt
        rain = [self.gap_rain * self.rain_scale] * total
        level_rows = []
        lev = self.base
        for st, p in zip(rec, starts):
            if "first" in st:
                lev = float(st["first"])
            for k, r in enumerate(st["rain"]):
                rain[p + k] = r * self.rain_scale
            level_rows.append((t(p), lev))
            for k, d in enumerate(st["inc"]):
                lev = lev + d * self.inc_scale
                level_rows.append((t(p + k + 1), lev))
            lev = lev + self.gap_jump * self.inc_scale   # level moves a lot during the gap
        if self.sub > 1:
            level_rows = self._subsample(level_rows)
        if self.stagger:
            level_rows = [(tt + self.stagger, z) for tt, z in level_rows]
        rain_rows = [(t(i), rain[i]) for i in range(total)]
        # a little margin of rain / ET rows outside the level span
        rain_rows = [(t(-1), 0.0)] + rain_rows + [(t(total), 0.0)]
        et_rows = [(t(i), self.et_of(i)) for i in range(-1, total + 2)]
        return rain_rows, et_rows, level_rows

    def _subsample(self, rows):
        """readings every dt/sub: on the chord between adjacent grid readings; around a hole, every
        off-grid reading is present (so a hole of one grid instant is 2 dt/sub <= dt long)"""
        h = self.dt // self.sub
        assert h * self.sub == self.dt
        out = []
        for (ta, za), (tb, zb) in zip(rows, rows[1:]):
            out.append((ta, za))
            if tb - ta == self.dt:
                out += [(ta + k * h, za + (zb - za) * k / self.sub) for k in range(1, self.sub)]
            else:
                out += [(ta + k * h, za) for k in range(1, self.sub)]
                out += [(tb - k * h, zb) for k in range(self.sub - 1, 0, -1)]
        out.append(rows[-1])
        return out

    def locate(self, rec, epoch):
        """epoch -> (stretch number k (0-based), 1-based index within it; may be m+1)"""
        starts, _ = self.layout(rec)
        i = (epoch - self.e0) // self.dt
        assert (epoch - self.e0) % self.dt == 0
        for k in reversed(range(len(rec))):
            if i >= starts[k]:
                return k, i - starts[k] + 1
        return None, i


def project_classification(conn, pres, rec):
    """Tables after classify -> per stretch dict shaped like Classify!Tables."""
    out = [dict(storm=set(), rise=set(), pair=set(), depth=set(), inter=set(),
                flags={}) for _ in rec]
    problems = []
    for a, z in table(conn, "SELECT start_epoch, thru_epoch FROM storm"):
        k, ia = pres.locate(rec, a)
        k2, iz = pres.locate(rec, z)
        # thru may be the first instant after the stretch (inside the gap / next stretch)
        iz = (z - a) // pres.dt + ia
        out[k]["storm"].add((ia, iz))
    for a, typ, z in table(conn, "SELECT start_epoch, interval_type, thru_epoch FROM zeta_interval"):
        k, ia = pres.locate(rec, a)
        k2, iz = pres.locate(rec, z)
        if k != k2:
            problems.append("interval %s crosses a gap: %s..%s" % (typ, a, z))
            iz = (z - a) // pres.dt + ia
        out[k]["rise" if typ == "storm" else "inter"].add((ia, iz))
    for a, typ, s in table(conn, "SELECT interval_start_epoch, interval_type, storm_start_epoch "
                                 "FROM zeta_interval_storm"):
        k, ia = pres.locate(rec, a)
        k2, is_ = pres.locate(rec, s)
        if k != k2:
            problems.append("pair crosses a gap")
        out[k]["pair"].add((ia, is_))
    for s, depth in table(conn, "SELECT storm_start_epoch, total_depth_mm FROM storm_total_rain_depth"):
        k, is_ = pres.locate(rec, s)
        units = depth / (pres.rain_scale * pres.dt / 3600.0)
        out[k]["depth"].add((is_, units))
    for e, j, m, i in table(conn, "SELECT start_epoch, is_jump, is_mystery_jump, is_interstorm "
                                  "FROM grid_time_flags"):
        k, ie = pres.locate(rec, e)
        out[k]["flags"][ie] = (bool(j), bool(m), bool(i))
    th = table(conn, "SELECT storm_rain_threshold_mm_h, rising_jump_threshold_mm_h FROM thresholds")
    return out, problems, th


def expected_tables(out_k):
    """JSON of Classify!Tables (one stretch) -> comparable python shape"""
    return dict(storm={tuple(x) for x in out_k["storm"]},
                rise={tuple(x) for x in out_k["rise"]},
                pair={tuple(x) for x in out_k["pair"]},
                depth={(x[0], float(x[1])) for x in out_k["depth"]},
                inter={tuple(x) for x in out_k["inter"]},
                flags={i + 1: tuple(f) for i, f in enumerate(out_k["flags"])})


def classify_api(pres, rec):
    """load + classify on an in-memory dataset; returns (projection, problems, error)"""
    import spowtd.classify as classify_mod
    rain_rows, et_rows, level_rows = pres.series(rec)
    conn = sqlite3.connect(":memory:")
    try:
        try:
            load_api(conn, rain_rows, et_rows, level_rows, pres.zone)
        except Exception as e:  # noqa
            return None, [], "load: %s: %s" % (type(e).__name__, e)
        try:
            classify_mod.classify_intervals(conn, storm_rain_threshold_mm_h=pres.s_real,
                                            rising_jump_threshold_mm_h=pres.j_real)
        except Exception as e:  # noqa
            return None, [], "classify: %s: %s" % (type(e).__name__, str(e)[:200])
        proj, problems, th = project_classification(conn, pres, rec)
        if th != [(pres.s_real, pres.j_real)]:
            problems.append("thresholds table %r" % (th,))
        return proj, problems, None
    finally:
        conn.close()


def classify_cli(pres, rec, wd, tag="r"):
    """the same through text files and the CLI entry point on a file dataset"""
    rain_rows, et_rows, level_rows = pres.series(rec)
    files = Files(wd, rain_rows, et_rows, level_rows, pres.zone, tag=tag)
    db = os.path.join(wd, tag + ".sqlite3")
    if os.path.exists(db):
        os.unlink(db)
    try:
        o = cli(files.load_argv(db))
        if not o.ok:
            return None, [], "load: " + o.describe()
        o = cli(["classify", db, "-s", repr(pres.s_real), "-j", repr(pres.j_real)])
        if not o.ok:
            return None, [], "classify: " + o.describe()
        conn = sqlite3.connect(db)
        try:
            proj, problems, th = project_classification(conn, pres, rec)
        finally:
            conn.close()
        if th != [(pres.s_real, pres.j_real)]:
            problems.append("thresholds table %r" % (th,))
        return proj, problems, None
    finally:
        for p in list(files.paths.values()) + [db, db + "-journal"]:
            if os.path.exists(p):
                os.unlink(p)


def compare_tables(proj_k, exp_k, what=("storm", "rise", "pair", "depth", "inter", "flags")):
    diffs = []
    for key in what:
        a, b = proj_k[key], exp_k[key]
        if key == "depth":
            da, db = dict(a), dict(b)
            if set(da) != set(db) or any(abs(da[s] - db[s]) > 1e-9 for s in da):
                diffs.append("depth: code %s spec %s" % (sorted(a), sorted(b)))
        elif a != b:
            if key == "flags":
                bad = [i for i in sorted(set(a) | set(b)) if a.get(i) != b.get(i)]
                diffs.append("flags differ at samples %s: code %s spec %s" % (
                    bad, [a.get(i) for i in bad], [b.get(i) for i in bad]))
            else:
                diffs.append("%s: code %s spec %s" % (key, sorted(a), sorted(b)))
    return diffs
