"""C13 (provenance) and the table-level part of C05 (stationarity): what the
real `rise` / `recession` wrote is recorded as cases and judged by TLC
(TraceProvenance.tla, TraceStationary.tla)."""
import json
import multiprocessing as mp
import os
import random
import sqlite3

from . import tlc
from . import present as P
from . import hydro_checks as HY
from .common import MachineryError, seed, workdir, rm

KP = 100000


def _tables(conn):
    t = {}
    t["grid"] = conn.execute("SELECT min(zeta_number), max(zeta_number), count(*) FROM discrete_zeta").fetchone()
    (t["step"],) = conn.execute("SELECT grid_interval_mm FROM zeta_grid").fetchone()
    t["wl"] = conn.execute("SELECT epoch, zeta_mm FROM water_level ORDER BY epoch").fetchall()
    t["inter"] = conn.execute("SELECT start_epoch, thru_epoch FROM zeta_interval WHERE interval_type='interstorm'").fetchall()
    t["rises"] = conn.execute(
        """SELECT zi.start_epoch, zi.thru_epoch, strd.total_depth_mm
           FROM zeta_interval_storm zis JOIN zeta_interval zi ON zi.start_epoch = zis.interval_start_epoch
           JOIN storm_total_rain_depth strd ON strd.storm_start_epoch = zis.storm_start_epoch""").fetchall()
    t["rec_members"] = [r[0] for r in conn.execute("SELECT start_epoch FROM recession_interval")]
    t["rise_members"] = [r[0] for r in conn.execute("SELECT start_epoch FROM rising_interval")]
    t["rec_rows"] = conn.execute("SELECT start_epoch, zeta_number, mean_crossing_time FROM recession_interval_zeta").fetchall()
    t["rise_rows"] = conn.execute("SELECT start_epoch, zeta_number, mean_crossing_depth_mm FROM rising_interval_zeta").fetchall()
    t["rec_off"] = dict(conn.execute("SELECT start_epoch, time_offset_s FROM recession_interval").fetchall())
    t["rise_off"] = dict(conn.execute("SELECT start_epoch, rain_depth_offset_mm FROM rising_interval").fetchall())
    return t


def lattice_cases(db, cid, e0, dt, syden, have):
    """cases for a lattice (Hydro) dataset: levels are whole mm, depths whole 1/syden mm"""
    conn = sqlite3.connect(db)
    try:
        t = _tables(conn)
    finally:
        conn.close()
    d2 = int(round(2 * t["step"]))
    idx = lambda e: (e - e0) // dt
    wl = {e: z for e, z in t["wl"]}
    zs = [z for _, z in t["wl"]]
    grid = {"lo": t["grid"][0], "hi": t["grid"][1], "count": t["grid"][2],
            "minp": int(round(2 * min(zs))), "maxp": int(round(2 * max(zs))), "slack": 0}
    prov, stat = [], []
    if "recession" in have:
        owners = []
        for a, z in t["inter"]:
            smp = [[(e - a) // dt, int(round(2 * wl[e]))] for e in sorted(wl) if a <= e <= z]
            owners.append({"start": idx(a), "samples": smp})
        prov.append({"id": "%s recession" % cid, "kind": "recession", "D": d2, "K": KP, "tol": 3, "owners": owners,
                     "members": [idx(e) for e in t["rec_members"]],
                     "rows": [{"start": idx(e), "n": n, "v": int(round(v / dt * KP))} for e, n, v in t["rec_rows"]],
                     "grid": grid})
        stat.append(stat_case("%s recession" % cid, t["rec_rows"], t["rec_off"], 1000.0 / dt, idx))
    if "rise" in have:
        owners = []
        for a, z, depth in t["rises"]:
            owners.append({"start": idx(a), "samples": [[0, int(round(2 * wl[a]))],
                                                        [int(round(depth * syden)), int(round(2 * wl[z]))]]})
        prov.append({"id": "%s rise" % cid, "kind": "rise", "D": d2, "K": KP, "tol": 3, "owners": owners,
                     "members": [idx(e) for e in t["rise_members"]],
                     "rows": [{"start": idx(e), "n": n, "v": int(round(v * syden * KP))} for e, n, v in t["rise_rows"]],
                     "grid": grid})
        stat.append(stat_case("%s rise" % cid, t["rise_rows"], t["rise_off"], 10000.0, idx))
    return prov, stat


def stat_case(cid, rows, off, scale, idx):
    levels = {}
    orphans = set()
    for e, n, v in rows:
        if e not in off:
            orphans.add(idx(e))        # a crossing row of an interval that has no offset
            continue
        levels.setdefault(n, []).append((idx(e), int(round((off[e] + v) * scale))))
    lv = [{"h": n, "s": [s for s, _ in sorted(r)], "v": [v for _, v in sorted(r)]} for n, r in sorted(levels.items())]
    return {"id": cid, "levels": lv, "intervals": sorted({idx(e) for e in off}), "slack": 4, "orphans": sorted(orphans)}


def nondyadic_cases(db, cid, e0, dt, syden, stepf, have):
    """a lattice dataset whose levels are multiples of a grid step such as 0.1 or 0.3 mm:
    everything in fixed point (D = 1000 per grid step), one unit of slack on the grid cover"""
    conn = sqlite3.connect(db)
    try:
        t = _tables(conn)
    finally:
        conn.close()
    D = 1000
    idx = lambda e: (e - e0) // dt
    wl = {e: z for e, z in t["wl"]}
    zs = [z for _, z in t["wl"]]
    fxp = lambda z: int(round(z / stepf * D))
    grid = {"lo": t["grid"][0], "hi": t["grid"][1], "count": t["grid"][2], "minp": fxp(min(zs)), "maxp": fxp(max(zs)),
            "slack": 1}
    prov = []
    if "recession" in have:
        owners = [{"start": idx(a), "samples": [[(e - a) // dt, fxp(wl[e])] for e in sorted(wl) if a <= e <= z]}
                  for a, z in t["inter"]]
        prov.append({"id": "%s recession" % cid, "kind": "recession", "D": D, "K": 1000, "tol": 5, "owners": owners,
                     "members": [idx(e) for e in t["rec_members"]],
                     "rows": [{"start": idx(e), "n": n, "v": int(round(v / dt * 1000))} for e, n, v in t["rec_rows"]],
                     "grid": grid})
    if "rise" in have:
        unit = stepf / syden          # rain depth per lattice unit of lift
        fx2 = lambda z: int(round(z / stepf * 100))       # coarser lattice: products must stay below 2^31
        owners = [{"start": idx(a), "samples": [[0, fx2(wl[a])], [int(round(depth / unit * 10)), fx2(wl[z])]]}
                  for a, z, depth in t["rises"]]
        prov.append({"id": "%s rise" % cid, "kind": "rise", "D": 100, "K": 10, "tol": 5, "owners": owners,
                     "members": [idx(e) for e in t["rise_members"]],
                     "rows": [{"start": idx(e), "n": n, "v": int(round(v / unit * 10 * 10))} for e, n, v in t["rise_rows"]],
                     "grid": dict(grid, minp=fx2(min(zs)), maxp=fx2(max(zs)))})
    return prov


def _nd_worker(args):
    from . import ref_checks as RF
    idx, beh, step, base = args
    wd = workdir("prvnd")
    try:
        wf, err = RF.build_dataset(beh, step, base, wd, "nd%d" % idx, half=0.0)
        if err:
            return idx, step, base, [], err
        have = [c for c in ("recession", "rise") if wf.run(c).ok]
        stepf = step[0] / step[1]
        prov = nondyadic_cases(wf.db, "beh%d step %d/%d base %d" % (idx, step[0], step[1], base),
                               wf.files and P.epoch_of(2013, 3, 1), 1800, beh["syden"], stepf, have) if have else []
        wf.cleanup()
        return idx, step, base, prov, None
    finally:
        rm(wd)


def validate(chk, module, cases, label):
    if not cases:
        return []
    wd = workdir("prov")
    try:
        path = os.path.join(wd, "cases.json")
        with open(path, "w") as f:
            json.dump(cases, f)
        res = tlc.run(module, "SPECIFICATION Spec\nPOSTCONDITION AllConsumed\nCHECK_DEADLOCK FALSE\n", workers=1,
                      env={"TRACE_FILE": path}, timeout=3000, heap="4g")
    finally:
        rm(wd)
    chk.add_tlc(res, label)
    if not res["ok"] or res["distinct"] != len(cases) + 1:
        raise MachineryError("%s did not consume all cases: %s\n%s" % (module, res["error"][:1500], res["tail"][-600:]))
    return res["fails"]


def _worker(batch):
    wd = workdir("prv")
    out = []
    try:
        for idx, beh in batch:
            dt = HY.DTS[idx % 3]
            # 5 mm: coarser than many rises, which then cross no level at all and stay out of the curve
            delta = (HY.DELTAS + [5.0])[(idx // 3) % 4]
            e0 = P.epoch_of(2016, 2, 1) + (idx % 5) * 86400 * 11
            wf, outc = HY.run_workflow(beh, dt, "UTC", e0, delta, wd, "p%d_%d" % (os.getpid(), idx))
            try:
                have = [c for c in ("recession", "rise") if outc.get(c) is not None and outc[c].ok]
                if have:
                    prov, stat = lattice_cases(wf.db, "beh%d dt%d grid%g" % (idx, dt, delta), wf.pres.e0, dt,
                                               beh["syden"], have)
                    # a second set-zeta-grid at another step: refused today (the grid is set once); if a tree
                    # accepts it, the curve tables must be those of the NEW grid (or gone), never stale rows
                    delta2 = {1.0: 0.5, 0.5: 2.0, 2.0: 1.0, 5.0: 1.0}[delta]
                    if wf.run("set-zeta-grid", "-d", repr(delta2)).ok:
                        p2, _ = lattice_cases(wf.db, "beh%d dt%d grid%g regridded to %g" % (idx, dt, delta, delta2),
                                              wf.pres.e0, dt, beh["syden"], have)
                        prov += p2
                else:
                    prov, stat = [], []
            finally:
                wf.cleanup()
            out.append((idx, dt, delta, e0, prov, stat))
    finally:
        rm(wd)
    return out


def collect(chk, tier, n_quick=60, n_thorough=600):
    q = tier == "quick"
    behs = []
    for truth in (["TruthA"] if q else HY.TRUTHS):
        behs += HY.behaviours(chk, "MCHydro simulate depth 14 " + truth,
                              HY.hydro_consts(truth, 14, "{14}", start="{2, 4, 7}", max_gap=2, force="TRUE"),
                              simulate="num=%d" % (40 if q else 300), workers=1)
    behs = [b for b in behs if HY._ok(b, "recOK", 1) or HY._ok(b, "riseOK", 1)][:n_quick if q else n_thorough]
    items = list(enumerate(behs))
    jobs = [items[i:i + 10] for i in range(0, len(items), 10)]
    prov, stat, meta = [], [], {}
    with mp.Pool(12) as pool:
        for out in pool.imap_unordered(_worker, jobs):
            for idx, dt, delta, e0, p, s in out:
                prov += p
                stat += s
                for c in p + s:
                    meta[c["id"]] = {"beh": behs[idx], "idx": idx, "dt": dt, "delta": delta, "e0": e0}
    return prov, stat, meta


def field_cases(k, s, j, step):
    """provenance / stationarity cases from a field dataset (fixed point)"""
    from . import field_checks as FF
    import spowtd.classify as classify_mod
    import spowtd.zeta_grid as zg
    import spowtd.rise as rise_mod
    import spowtd.recession as rec_mod
    conn = sqlite3.connect(":memory:")
    FF.loaded(k).backup(conn)
    classify_mod.classify_intervals(conn, s, j)
    zg.populate_zeta_grid(conn, step)
    conn.commit()
    rec_mod.find_recession_offsets(conn)
    rise_mod.find_rise_offsets(conn)
    try:
        return cases_from_conn(conn, "field%d s=%g j=%g" % (k, s, j))
    finally:
        conn.close()


def cases_from_conn(conn, tag, have=("recession", "rise")):
    """provenance / stationarity cases (fixed point) from the tables of any dataset with a grid and curves"""
    t = _tables(conn)
    (dt,) = conn.execute("SELECT time_step_s FROM time_grid").fetchone()
    step = t["step"]
    e0 = t["wl"][0][0]
    idx = lambda e: (e - e0) // dt
    wl = {e: z for e, z in t["wl"]}
    eps = sorted(wl)
    zs = [z for _, z in t["wl"]]
    D = 1000
    fxp = lambda z: int(round(z / step * D))
    grid = {"lo": t["grid"][0], "hi": t["grid"][1], "count": t["grid"][2], "minp": fxp(min(zs)), "maxp": fxp(max(zs)),
            "slack": 0 if step in (1.0, 0.5, 2.0, 0.25) else 1}
    import bisect
    rng = random.Random(seed())
    owners, by_start = [], {}
    for a, z in t["inter"]:
        i0, i1 = bisect.bisect_left(eps, a), bisect.bisect_right(eps, z)
        smp = [[(e - a) // dt, fxp(wl[e])] for e in eps[i0:i1]]
        by_start[a] = smp
        owners.append({"start": idx(a), "samples": smp if len(smp) <= 60 else smp[:1]})
    rows = []
    for e, n, v in t["rec_rows"]:
        smp = by_start.get(e)
        if smp is None or len(smp) > 60:
            continue
        crossings = sum(1 for u, w in zip(smp, smp[1:]) if min(u[1], w[1]) <= n * D < max(u[1], w[1]))
        # a sample within one fixed-point unit of the level: whether the real value lies above or below it
        # (and so how many crossings there are) is not recoverable at this resolution -- row not judged
        if crossings == 1 and all(abs(u[1] - n * D) > 1 for u in smp):
            rows.append({"start": idx(e), "n": n, "v": int(round(v / dt * 100))})
    rng.shuffle(rows)
    prov = [{"id": "%s step=%g recession" % (tag, step), "kind": "recession", "D": D, "K": 100,
             "tol": 3, "owners": owners, "members": [idx(e) for e in t["rec_members"]], "rows": rows[:400], "grid": grid}]
    # rises: relational part only (owner exists, level in grid); values judged loosely
    owners = [{"start": idx(a), "samples": [[0, int(round(wl[a] / step * 10))],
                                            [int(round(depth * 100)), int(round(wl[z] / step * 10))]]}
              for a, z, depth in t["rises"]]
    prov.append({"id": "%s step=%g rise" % (tag, step), "kind": "rise", "D": 10, "K": 10,
                 "tol": 400, "owners": owners, "members": [idx(e) for e in t["rise_members"]],
                 "rows": [{"start": idx(e), "n": n, "v": int(round(v * 100 * 10))} for e, n, v in t["rise_rows"]][:300],
                 "grid": dict(grid, minp=int(round(min(zs) / step * 10)), maxp=int(round(max(zs) / step * 10)))})
    stat = [stat_case("%s step=%g recession" % (tag, step), t["rec_rows"], t["rec_off"], 0.1, idx),
            stat_case("%s step=%g rise" % (tag, step), t["rise_rows"], t["rise_off"], 1000.0, idx)]
    return prov, stat


def _record_worker(args):
    """load + classify + set-zeta-grid + rise + recession through the CLI on a Classify-lattice record (several gaps,
    drizzle, increments exactly AT the rise threshold: the level may creep on after a rise)"""
    from . import classify_checks as CC
    from .workflow import Workflow
    cid, seed_ = args
    rng = random.Random(seed_)
    pres = P.Presentation(dt=1800, s_real=4.0, j_real=8.0, S=4, J=4, gap=rng.choice([1, 1, 2, 3]), gap_rain=rng.choice([0, 5]))
    rec = CC.random_record(rng, max_len=24)
    while not pres.presentable(rec):
        rec = CC.random_record(rng, max_len=24)
    wd = workdir("prvrec")
    try:
        rain_rows, et_rows, level_rows = pres.series(rec)
        wf = Workflow(wd, "r%d" % cid, rain_rows, et_rows, level_rows, "UTC")
        if not wf.load().ok or not wf.run("classify", "-s", "4.0", "-j", "8.0").ok or not wf.run("set-zeta-grid", "-d", "1.0").ok:
            wf.cleanup()
            return cid, rec, [], []
        have = [c for c in ("recession", "rise") if wf.run(c).ok]
        # rain: 1 mm/h per unit on 30-minute steps = 0.5 mm per unit (SyDen 2); levels: whole millimetres
        prov, stat = lattice_cases(wf.db, "record%d" % cid, pres.e0, 1800, 2, have) if have else ([], [])
        wf.cleanup()
        return cid, rec, prov, stat
    finally:
        rm(wd)


def record_cases(chk, n):
    prov, meta = [], {}
    with mp.Pool(12) as pool:
        for cid, rec, p, _ in pool.imap_unordered(_record_worker, [(i, seed() * 7919 + i) for i in range(n)]):
            prov += p
            for c in p:
                meta[c["id"]] = {"record": rec, "cid": cid}
    return prov, meta


def c13(chk, tier):
    q = tier == "quick"
    chk.cov["rule"] = (
        "after real workflows on Hydro.tla behaviours (time steps 15/30/60 min, grid steps 1/0.5/2 mm) and on the "
        "field datasets, every member interval and every *_interval_zeta row is recorded with the CLASSIFIED "
        "intervals of the right kind and their own samples (rises: the segment from zero depth at the initial "
        "level to the storm's total depth at the final level); TraceProvenance.tla re-derives each crossing value "
        "with Regrid.tla from the owner's samples (exact on lattice data, 1e-5 step; fixed point on field data), "
        "checks owners, levels within the grid, and grid = floor(min/step)..ceil(max/step)-1 without holes. "
        "non-trivial = case with >= 2 member intervals")
    prov, stat, meta = collect(chk, tier)
    fprov = []
    for k, s, j, step in ([(1, 8.0, 5.0, 1.0)] if q else [(1, 8.0, 5.0, 1.0), (2, 8.0, 5.0, 1.0), (2, 4.0, 2.0, 0.5), (1, 4.0, 8.0, 2.5)]):
        p, _ = field_cases(k, s, j, step)
        fprov += p
        for c in p:
            meta[c["id"]] = {"field": [k, s, j, step]}
    # grid steps that are not binary fractions, levels ON grid lines (max/step an integer up to rounding)
    behs = sorted({json.dumps(m["beh"], sort_keys=True) for m in meta.values() if "beh" in m})
    behs = [json.loads(b) for b in behs][:12 if q else 80]
    jobs = [(i, b, st, base) for i, b in enumerate(behs) for st, base in
            (((1, 10), 0), ((3, 10), -379)) + (() if q else (((1, 5), 60), ((1, 10), -1203)))]
    with mp.Pool(12) as pool:
        for idx, st, base, p, err in pool.imap_unordered(_nd_worker, jobs):
            if err:
                chk.violation("workflow at grid step %s/%s failed: %s" % (st[0], st[1], err), {"kind": "prov", "detail": err})
            fprov += p
            for c in p:
                meta[c["id"]] = {"beh": behs[idx], "idx": idx, "step": list(st), "base": base}
    rprov, rmeta = record_cases(chk, 400 if q else 4000)
    fprov += rprov
    meta.update(rmeta)
    fails = validate(chk, "TraceProvenance", prov + fprov, "TraceProvenance on %d cases" % (len(prov) + len(fprov)))
    for c in prov + fprov:
        chk.count("evaluations", len(c["rows"]))
        chk.count("traces_validated_against_impl")
        if len(c["members"]) >= 2:
            chk.count("distinct_nontrivial")
    if prov:
        c = prov[0]
        chk.sample({"case": c["id"], "owners": c["owners"][:2], "rows": c["rows"][:4], "grid": c["grid"]})
    _report(chk, fails, prov + fprov, meta, "C13")
    if not q:
        # the repository's own tests: the curve tables they leave behind
        from . import testtrace as TT
        TT.judge(chk, ("C13",), k_expr="test_rise or test_recession", parts=("curves",))


def stationarity_on_tables(chk, tier):
    """C05 part B"""
    q = tier == "quick"
    prov, stat, meta = collect(chk, tier, n_quick=30, n_thorough=300)
    fstat = []
    # the grid step 0.25 mm puts more than 1000 levels under the field recessions (1150 / 1551): every one
    # of them must enter the least-squares problem
    for k, s, j, step in ([(2, 8.0, 5.0, 1.0), (2, 8.0, 5.0, 0.25)] if q else
                          [(1, 8.0, 5.0, 1.0), (2, 8.0, 5.0, 1.0), (2, 4.0, 2.0, 0.5), (1, 8.0, 5.0, 0.25),
                           (2, 8.0, 5.0, 0.25), (2, 8.0, 5.0, 0.1)]):
        _, st = field_cases(k, s, j, step)
        fstat += st
        for c in st:
            meta[c["id"]] = {"field": [k, s, j, step]}
        chk.cov["largest_level_count"] = max(chk.cov.get("largest_level_count", 0), max(len(c["levels"]) for c in st))
    fails = validate(chk, "TraceStationary", stat + fstat, "TraceStationary on %d cases" % (len(stat) + len(fstat)))
    for c in stat + fstat:
        chk.count("evaluations", len(c["intervals"]))
        chk.count("traces_validated_against_impl")
        if len(c["intervals"]) >= 3:
            chk.count("distinct_nontrivial")
    if fstat:
        c = fstat[0]
        chk.sample({"case": c["id"], "intervals": len(c["intervals"]), "levels": len(c["levels"]), "first_level": c["levels"][0]})
    _report(chk, fails, stat + fstat, meta, "C05")
    if not q:
        from . import testtrace as TT
        TT.judge(chk, ("C05",), k_expr="test_rise or test_recession", parts=("curves",))


def _report(chk, fails, cases, meta, prefix):
    by_id = {c["id"]: c for c in cases}
    seen = set()
    for f in fails:
        if not f["clause"].startswith(prefix) or (f["id"], f["clause"]) in seen:
            continue
        seen.add((f["id"], f["clause"]))
        c = by_id[f["id"]]
        detail = None
        if "rows" in c and f["stretch"] and f["stretch"] <= len(c["rows"]):
            detail = c["rows"][f["stretch"] - 1]
        m = meta.get(f["id"])
        chk.violation("TLC rejects the tables written for %s: %s (item %s %s)" % (f["id"], f["clause"], f["stretch"], detail),
                      {"kind": "prov", "case_id": f["id"], "clause": f["clause"], "item": f["stretch"], "detail": detail,
                       "workflow": m})


def replay_file(chk, rp):
    """re-create the workflow the case came from, record its tables again and let TLC judge them"""
    m = rp.get("workflow")
    if not m:
        raise SystemExit("replay file has no workflow description; re-run the check")
    if "record" in m:
        _, _, prov, stat = _record_worker((m["cid"], seed() * 7919 + m["cid"]))
    elif "field" in m:
        prov, stat = field_cases(*m["field"])
    elif "step" in m:
        _, _, _, prov, err = _nd_worker((m["idx"], m["beh"], tuple(m["step"]), m["base"]))
        stat = []
        if err:
            chk.violation("replayed: workflow failed: %s" % err, rp)
            return
    else:
        (_, _, _, _, prov, stat), = _worker([(m["idx"], m["beh"])])
    module, cases = ("TraceProvenance", prov) if chk.prop == "C13" else ("TraceStationary", stat)
    cases = [c for c in cases if c["id"] == rp["case_id"]] or cases
    fails = validate(chk, module, cases, "replay")
    chk.count("evaluations"); chk.count("distinct_nontrivial", 2); chk.count("traces_validated_against_impl", len(cases))
    chk.sample({"case": cases[0]["id"]} if cases else "no case")
    for f in fails:
        if f["clause"].startswith(chk.prop):
            chk.violation("replayed: %s: %s (item %s)" % (f["id"], f["clause"], f["stretch"]), rp)
            break
