"""Registered checks C14, C15 (C17, C18 are completed by the CLI-level parts in sim_checks)."""
from . import hydraulics_checks as HC


def c17(chk, tier):
    from . import sim_checks as SC
    SC.c17(chk, tier)


def c18(chk, tier):
    from . import sim_checks as SC
    SC.c18(chk, tier)


REGISTRY = {
    "C14": {"run": HC.c14, "replay": HC.replay_file},
    "C15": {"run": HC.c15, "replay": HC.replay_file},
    "C17": {"run": c17, "replay": HC.replay_file},
    "C18": {"run": c18, "replay": HC.replay_file},
}
