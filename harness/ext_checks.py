"""EXT (not a listed property, not in MANIFEST): behaviour beyond the listed
properties that the specification covers (Extras.tla): PEATCLSM transmissivity
for integer alpha, `plot ... --dump`, parameter-dictionary life cycle."""
import io
import os
from fractions import Fraction

import numpy as np
import yaml

from . import tlc
from . import present as P
from . import hydraulics_checks as HC
from .common import MachineryError, workdir, rm, import_repo

import_repo()


def ext(chk, tier):
    import spowtd.transmissivity as tm
    import spowtd.specific_yield as sy_mod
    chk.cov["rule"] = ("Extras.tla: PEATCLSM transmissivity exact rationals for integer alpha on a cm lattice and refusal above "
                       "zeta_max; `plot specific-yield|transmissivity --dump` rows against the polynomial / log2 lattices; "
                       "a second create_*_function on the same dictionary is refused")
    consts = {"Kss": "{1, 7}", "Alphas": "{2, 3, 4}", "ZMaxs": "{0, 1, 5}", "ZWindow": "<- ZW", "Emit": "TRUE"}
    invs = ["Inv_Monotone", "Inv_RefusedAbove"]
    res = tlc.run("MCExtras", tlc.cfg_text(consts, spec="Spec", invariants=invs + ["EmitInv"], properties=["SecondCreateRefused"]),
                  workers=2, invariants=invs, properties=["SecondCreateRefused"])
    chk.add_tlc(res, "MCExtras")
    for e in res["emits"]:
        chk.count("evaluations"); chk.count("traces_validated_against_impl")
        T = tm.create_transmissivity_function({"type": "peatclsm", "Ksmacz0": float(e["ks"]), "alpha": e["alpha"],
                                               "zeta_max_cm": float(e["zmax"])})
        z_mm = e["zcm"] * 10.0
        try:
            got = float(T(z_mm))
            err = None
        except ValueError as ex:
            got, err = None, ex
        except ZeroDivisionError as ex:
            got, err = None, ex
        t = e["t"]
        if t["refused"]:
            if err is None:
                chk.violation("PEATCLSM transmissivity above zeta_max was not refused: %s -> %r" % (e, got), {"kind": "ext", "case": e})
            continue
        if e["zcm"] == e["zmax"]:
            continue        # 0^(1-alpha): outside the formula's domain, not judged
        chk.count("distinct_nontrivial")
        want = float(Fraction(t["num"], t["den"]))
        if err is not None or abs(got - want) > 1e-12 * abs(want):
            chk.violation("PEATCLSM transmissivity %s: code %r (%r), formula %r" % (e, got, err, want), {"kind": "ext", "case": e})
        chk.sample({"peatclsm_T": e})
    # E3: dictionary life cycle
    d = {"type": "spline", "zeta_knots_mm": [0.0, 1.0, 2.0, 3.0], "sy_knots": [0.1, 0.2, 0.3, 0.4]}
    sy_mod.create_specific_yield_function(d)
    try:
        sy_mod.create_specific_yield_function(d)
        chk.violation("a second create_specific_yield_function on the same dictionary succeeded (the specification says the "
                      "type key is consumed)", {"kind": "ext", "case": "dict"})
    except ValueError:
        chk.count("evaluations"); chk.count("distinct_nontrivial")
    # E2: dumps through the CLI
    wd = workdir("ext")
    try:
        c, lo, hi = [3, -1, 1, 0], 0, 5
        ppath = os.path.join(wd, "p.yml")
        yaml.safe_dump({"specific_yield": {"type": "spline", "zeta_knots_mm": [float(k) for k in range(lo, hi + 1)],
                                           "sy_knots": [float(HC.poly(c, k)) for k in range(lo, hi + 1)]},
                        "transmissivity": {"type": "spline", "zeta_knots_mm": [0.0, 4.0, 12.0], "K_knots_km_d": [1.0, 4.0, 0.25],
                                           "minimum_transmissivity_m2_d": 2.0}}, open(ppath, "w"))
        for what in ("specific-yield", "transmissivity"):
            out = os.path.join(wd, what + ".txt")
            # levels in cm: -0.2 .. 0.7 cm = -2 .. 7 mm, 10 points -> every mm
            o = P.cli(["plot", what, ppath, "-0.2", "0.7", "-n", "10", "-d", out])
            chk.count("evaluations")
            if not o.ok:
                chk.violation("plot %s --dump failed: %s" % (what, o.describe()), {"kind": "ext", "case": what})
                continue
            rows = [l.split(",") for l in open(out).read().splitlines()[1:]]
            if len(rows) != 10:
                chk.violation("plot %s --dump wrote %d rows for -n 10" % (what, len(rows)), {"kind": "ext", "case": what})
                continue
            for k, (zc, v) in enumerate(rows):
                want_z = Fraction(-2 + k, 10)
                if abs(Fraction(float(zc)) - want_z) > Fraction(1, 10**12):
                    chk.violation("plot %s --dump level %d is %s cm, expected %s" % (what, k, zc, float(want_z)), {"kind": "ext", "case": what})
                    break
                z_mm = -2 + k
                if what == "specific-yield":
                    want = float(HC.poly(c, min(max(z_mm, lo), hi)))
                    if abs(float(v) - want) > 1e-9 * max(1.0, abs(want)):
                        chk.violation("plot specific-yield --dump at %d mm: %s, the clamped polynomial gives %r" % (z_mm, v, want),
                                      {"kind": "ext", "case": what})
                        break
                chk.count("traces_validated_against_impl"); chk.count("distinct_nontrivial")
    finally:
        rm(wd)


REGISTRY = {"EXT": {"run": ext, "replay": lambda chk, rp: None}}
