------------------------------ MODULE TimeZone ------------------------------
(***************************************************************************)
(* Time zones as data (C11).  A zone is                                    *)
(*     [init |-> offset before the first transition,                       *)
(*      tr   |-> sequence of <<utc instant, offset from that instant on>>, *)
(*               strictly increasing in the instant]                       *)
(* Offsets are seconds east of UTC.  A UTC instant e is rendered in the    *)
(* zone as the local time e + OffsetAt(zone, e).  The property: the stored *)
(* instant of a local time text is a member of ValidInstants, i.e. renders *)
(* back to the same text.                                                  *)
(***************************************************************************)
EXTENDS Integers, Sequences, FiniteSets

EraOf(z, e) == Cardinality({k \in 1..Len(z.tr) : z.tr[k][1] <= e})     \* 0 = before the first
OffsetOfEra(z, k) == IF k = 0 THEN z.init ELSE z.tr[k][2]
OffsetAt(z, e) == OffsetOfEra(z, EraOf(z, e))
Render(z, e) == e + OffsetAt(z, e)
Offsets(z) == {z.init} \cup {z.tr[k][2] : k \in 1..Len(z.tr)}

ValidInstants(z, local) == {e \in {local - o : o \in Offsets(z)} : Render(z, e) = local}

(* eras that produce a valid instant for this local time *)
ErasOf(z, local) == {EraOf(z, e) : e \in ValidInstants(z, local)}

WellFormedZone(z) == \A k \in 1..(Len(z.tr) - 1) : z.tr[k][1] < z.tr[k + 1][1]
=============================================================================
