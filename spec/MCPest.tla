-------------------------------- MODULE MCPest --------------------------------
(* all shapes: the expected structure is self-consistent (the contract itself) *)
EXTENDS Pest
CONSTANTS NSy, NK, NLevels
VARIABLE sh
Init == sh \in [kind : {"rise", "curves"}, par : {"spline", "peatclsm"}, nsy : NSy, nk : NK, nrise : NLevels, nrec : NLevels]
Next == UNCHANGED sh
Spec == Init /\ [][Next]_sh
Expected ==
    [tpl |-> [placeholders |-> ParNames(sh)],
     pst |-> [npar |-> Len(ParNames(sh)), nobs |-> NObs(sh), npargp |-> NParGroups(sh), nobsgp |-> NObsGroups(sh),
              pars |-> ParNames(sh), obs |-> [k \in 1..NObs(sh) |-> <<ObsNames(sh)[k], "v", ObsGroup(sh, k)>>],
              pargroups |-> [k \in 1..NParGroups(sh) |-> "g" \o ToString(k)],
              obsgroups |-> IF sh.kind = "curves" THEN <<"storageobs", "timeobs">> ELSE <<"storageobs">>,
              pargroupof |-> <<>>],
     ins |-> [markers |-> Markers(sh), obs |-> [k \in 1..NObs(sh) |-> <<ObsNames(sh)[k], FieldLo, FieldHi>>]]]
Inv_Counts == CountsMatch(Expected)
Inv_Names == NamesMatch(Expected)
Inv_Aligned == ObsAligned(Expected)
Inv_NamesDistinct == Cardinality(SeqSet(ParNames(sh))) = Len(ParNames(sh)) /\ Cardinality(SeqSet(ObsNames(sh))) = NObs(sh)
=============================================================================
