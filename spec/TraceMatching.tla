---------------------------- MODULE TraceMatching ----------------------------
(***************************************************************************)
(* Code -> specification at the grain of the loop (C02): the real          *)
(* find_stable_matching is given candidate lists whose pop() is recorded,  *)
(* so each trace is                                                        *)
(*     inst (E, dur, off)  --  Propose(s, r) ...  --  result M             *)
(* The trace specification re-uses Matching.tla's loop: every recorded     *)
(* Propose(s, r) must be an enabled Iterate from the current loop state    *)
(* (s in the pool, r one of s's best remaining candidates), the loop must  *)
(* be done when the events are exhausted, and the returned matching must   *)
(* be the loop's M.  One behaviour step per event; cases are chained (tid) *)
(* so that thousands of traces are validated in one TLC run.               *)
(***************************************************************************)
EXTENDS Matching, TLC, Json, IOUtils

Cases == JsonDeserialize(IOEnv.TRACE_FILE)

VARIABLES tid, k, L, bad
vars == <<tid, k, L, bad>>

Inst(c) == [E   |-> {<<c.E[q][1], c.E[q][2]>> : q \in 1..Len(c.E)},
            dur |-> [e \in {<<c.E[q][1], c.E[q][2]>> : q \in 1..Len(c.E)} |->
                       c.dur[CHOOSE q \in 1..Len(c.E) : <<c.E[q][1], c.E[q][2]>> = e]],
            off |-> [e \in {<<c.E[q][1], c.E[q][2]>> : q \in 1..Len(c.E)} |->
                       c.off[CHOOSE q \in 1..Len(c.E) : <<c.E[q][1], c.E[q][2]>> = e]]]
Fail(c, clause, w) == PrintT("FAIL " \o ToJson([id |-> c.id, stretch |-> w, clause |-> clause]))

StartL(t) == IF t > Len(Cases) THEN [pool |-> {}, rem |-> <<>>, M |-> {}] ELSE LoopInit(Inst(Cases[t]))
Init == tid = 1 /\ k = 1 /\ L = StartL(1) /\ bad = FALSE

(* consume the k-th Propose event of the current trace *)
Propose ==
    /\ tid <= Len(Cases) /\ ~bad
    /\ k <= Len(Cases[tid].proposals)
    /\ LET c == Cases[tid]
           inst == Inst(c)
           s == c.proposals[k][1]
           r == c.proposals[k][2]
           enabled == s \in L.pool /\ r \in Best(inst, s, L.rem[s])
       IN  IF enabled
           THEN /\ L' = Iterate(inst, L, s, r) /\ k' = k + 1 /\ UNCHANGED <<tid, bad>>
           ELSE /\ Fail(c, IF s \in L.pool THEN "C02 a storm proposed to a rise that is not its best remaining candidate"
                           ELSE "C02 a storm that is not in the pool proposed (matched storms and storms without candidates must not)", k)
                /\ bad' = TRUE /\ UNCHANGED <<tid, k, L>>

(* the events of this trace are exhausted (or the trace was rejected): judge the end, go to the next trace *)
Finish ==
    /\ tid <= Len(Cases)
    /\ (bad \/ k > Len(Cases[tid].proposals))
    /\ LET c == Cases[tid]
           M == {<<c.M[q][1], c.M[q][2]>> : q \in 1..Len(c.M)}
       IN  bad \/ ((IF LoopDone(L) THEN TRUE ELSE Fail(c, "C02 the loop stopped while a storm with candidates left was still unmatched", 0))
                   /\ (IF M = L.M THEN TRUE ELSE Fail(c, "C02 the returned matching is not what the recorded proposals produce", 0))
                   /\ (IF NoBlockingPair(M, Inst(c)) THEN TRUE ELSE Fail(c, "C02 blocking pair", 0)))
    /\ TLCSet(42, tid)            \* highest trace finished (read by the POSTCONDITION)
    /\ tid' = tid + 1 /\ k' = 1 /\ L' = StartL(tid + 1) /\ bad' = FALSE

Next == Propose \/ Finish
Spec == Init /\ [][Next]_vars
TotalSteps == LET RECURSIVE f(_)
                  f(q) == IF q = 0 THEN 0 ELSE f(q - 1) + Len(Cases[q].proposals) + 1
              IN  f(Len(Cases))
AllConsumed == Len(Cases) = 0 \/ TLCGet(42) = Len(Cases)
=============================================================================
