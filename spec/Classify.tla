------------------------------ MODULE Classify ------------------------------
(***************************************************************************)
(* What `spowtd classify` must compute on one gap-free stretch of the      *)
(* loaded record (spowtd/classify.py).                                     *)
(*                                                                         *)
(* A stretch is [rain |-> Seq(Nat), inc |-> Seq(Int)] with                 *)
(*     Len(inc) = Len(rain) - 1,  Len(rain) = m >= 1.                      *)
(* Sample k (1..m) is a grid instant carrying a water level; rain[k] is    *)
(* the rainfall intensity on the time step that STARTS at sample k;        *)
(* inc[k] (1..m-1) is the water-level increment over that step, i.e.       *)
(* level[k+1] - level[k].  Step m starts at the last sample of the stretch:*)
(* its rain is known, the level at its end is not (gap / end of record).   *)
(*                                                                         *)
(* S = storm threshold in rain units, J = jump threshold expressed as an   *)
(* increment per step in level units (threshold x step length).            *)
(*                                                                         *)
(* Part 1 is declarative (the wording of C01, C03, C04); part 2 transcribes*)
(* the code's algorithms so that TLC can check algorithm = definition.     *)
(***************************************************************************)
EXTENDS Integers, Sequences, FiniteSets, Matching

Samples(st)  == 1..Len(st.rain)
Steps(st)    == 1..Len(st.rain)          \* steps whose rain is known
IncSteps(st) == 1..Len(st.inc)           \* steps with a level at both ends

WellFormedStretch(st) == Len(st.rain) >= 1 /\ Len(st.inc) = Len(st.rain) - 1

Heavy(st, S, k) == st.rain[k] > S
Wet(st, k)      == st.rain[k] > 0
Jump(st, J, k)  == st.inc[k] > J

(* maximal runs of a predicate on the integer interval D = 1..n.  Written   *)
(* through the run starts and run ends so that TLC evaluates P once per     *)
(* index: <<a,z>> is a maximal run iff a starts a run, z ends one, and no   *)
(* run end lies in a..z-1.                                                  *)
MaxRuns(P(_), D) ==
    LET b == [k \in D |-> P(k)]
        starts == {a \in D : b[a] /\ ((a - 1) \in D => ~b[a - 1])}
        ends   == {z \in D : b[z] /\ ((z + 1) \in D => ~b[z + 1])}
    IN  {az \in starts \X ends :
            /\ az[1] <= az[2]
            /\ \A z \in ends : ~(az[1] <= z /\ z < az[2])}

(* C03: storms = maximal runs of steps with rain strictly above S; rises = *)
(* maximal runs of increments strictly above J; both within the stretch.   *)
Storms(st, S) == MaxRuns(LAMBDA k : Heavy(st, S, k), Steps(st))
Rises(st, J)  == MaxRuns(LAMBDA k : Jump(st, J, k), IncSteps(st))

(* C01: a storm and a rise overlap iff a time step lies inside both *)
Overlap(s, r) == s[1] <= r[2] /\ r[1] <= s[2]      \* two index intervals share a step
Cand(st, S, J) ==
    LET storms == Storms(st, S)
        rises == Rises(st, J)
    IN  {sr \in storms \X rises : Overlap(sr[1], sr[2])}

RunLen(a) == a[2] - a[1] + 1
AbsV(x) == IF x < 0 THEN -x ELSE x

(* C02: the matching instance induced by a stretch.  Durations are counted *)
(* in time steps on both sides (a rise over n increments lasts n steps).   *)
Instance(st, S, J) ==
    LET E == Cand(st, S, J) IN
    [E   |-> E,
     dur |-> [e \in E |-> AbsV(RunLen(e[1]) - RunLen(e[2]))],
     off |-> [e \in E |-> AbsV(e[2][1] - e[1][1])]]

(* C03: rain depth of a storm, in (rain unit x step) *)
RECURSIVE SumRain(_, _, _)
SumRain(st, a, z) == IF a > z THEN 0 ELSE st.rain[a] + SumRain(st, a + 1, z)
Depth(st, s) == SumRain(st, s[1], s[2])

(***************************************************************************)
(* C04, declarative.  Flags are per sample.                                *)
(***************************************************************************)
IsJumpAt(st, J, i) == i > 1 /\ Jump(st, J, i - 1)     \* increment ENDING at sample i

MaxOf(X) == CHOOSE x \in X : \A y \in X : y <= x

(* last[i] = the last rainy step strictly before sample i (0 if none) *)
LastWetBefore(st) ==
    LET f[i \in 1..Len(st.rain)] ==
          IF i = 1 THEN 0 ELSE IF Wet(st, i - 1) THEN i - 1 ELSE f[i - 1]
    IN  f

(* the wording of C04: sample i is rain free, some rain was recorded       *)
(* earlier in the stretch, and no increment ENDING at a rain-free sample   *)
(* since the last rainy step exceeds the threshold                         *)
CleanDryAll(st, J) ==
    LET last == LastWetBefore(st)
    IN  [i \in Samples(st) |->
            /\ ~Wet(st, i)
            /\ last[i] > 0
            /\ \A q \in (last[i] + 1)..i : ~IsJumpAt(st, J, q)]

CleanDry(st, J, i) == CleanDryAll(st, J)[i]

FlagsAll(st, J) ==
    LET cd == CleanDryAll(st, J)
    IN  [i \in Samples(st) |-> <<IsJumpAt(st, J, i), ~Wet(st, i) /\ ~cd[i], cd[i]>>]

FlagJump(st, J, i)  == IsJumpAt(st, J, i)
FlagInter(st, J, i) == CleanDry(st, J, i)
FlagMyst(st, J, i)  == ~Wet(st, i) /\ ~CleanDry(st, J, i)

Interstorms(st, J) ==
    LET cd == CleanDryAll(st, J)
    IN  {az \in MaxRuns(LAMBDA i : cd[i], Samples(st)) : az[2] > az[1]}

(***************************************************************************)
(* The tables of one stretch, in sample indices relative to the stretch:   *)
(* storm rows <<start step, thru>> with thru = start of the first step     *)
(* after the run; rise rows <<first sample, last sample>>; pairs           *)
(* <<rise start, storm start>>; interstorm rows <<first, last sample>>.    *)
(***************************************************************************)
StormRow(s) == <<s[1], s[2] + 1>>
RiseRow(r)  == <<r[1], r[2] + 1>>

Tables(st, S, J, M) ==
    [storm  |-> {StormRow(e[1]) : e \in M},
     rise   |-> {RiseRow(e[2]) : e \in M},
     pair   |-> {<<e[2][1], e[1][1]>> : e \in M},
     depth  |-> {<<e[1][1], Depth(st, e[1])>> : e \in M},
     inter  |-> Interstorms(st, J),
     flags  |-> FlagsAll(st, J)]

(***************************************************************************)
(* Part 2: transcriptions.                                                 *)
(***************************************************************************)
(* get_mystery_jump_mask: online machine, in_mystery starts TRUE *)
MystOnline(st, J) ==
    LET f[i \in 0..Len(st.rain)] ==
          IF i = 0 THEN TRUE
          ELSE IF Wet(st, i) THEN FALSE
          ELSE IF IsJumpAt(st, J, i) THEN TRUE
          ELSE f[i - 1]
    IN  [i \in Samples(st) |-> f[i]]

OnlineEqualsDeclarative(st, J) ==
    LET on == MystOnline(st, J)
        fl == FlagsAll(st, J)
    IN  \A i \in Samples(st) :
          /\ on[i] = fl[i][2]
          /\ (~on[i] /\ ~Wet(st, i)) = fl[i][3]

(* get_true_interval_masks: is_start = positive difference (first element  *)
(* starts a run iff it is true), block ids by cumulative sum, id 0 = false *)
MaskIds(b) ==
    LET n == Len(b)
        start[i \in 1..n] == IF i = 1 THEN b[1] ELSE (b[i] /\ ~b[i - 1])
        cum[i \in 0..n] == IF i = 0 THEN 0 ELSE cum[i - 1] + (IF start[i] THEN 1 ELSE 0)
    IN  [i \in 1..n |-> IF b[i] THEN cum[i] ELSE 0]

RunsFromMask(b) ==
    LET ids == MaskIds(b)
        used == {ids[i] : i \in 1..Len(b)} \ {0}
    IN  {<<CHOOSE a \in 1..Len(b) : ids[a] = id /\ \A q \in 1..Len(b) : ids[q] = id => a <= q,
           CHOOSE z \in 1..Len(b) : ids[z] = id /\ \A q \in 1..Len(b) : ids[q] = id => q <= z>>
         : id \in used}

MasksEqualRuns(st, S, J) ==
    /\ RunsFromMask([k \in Steps(st) |-> Heavy(st, S, k)]) = Storms(st, S)
    /\ RunsFromMask([k \in IncSteps(st) |-> Jump(st, J, k)]) = Rises(st, J)
=============================================================================
