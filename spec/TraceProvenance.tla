--------------------------- MODULE TraceProvenance ---------------------------
(***************************************************************************)
(* C13, code -> specification.  After a real workflow (load, classify,     *)
(* set-zeta-grid, rise / recession) the harness records, per case:         *)
(*   kind      "recession" | "rise"                                        *)
(*   D         denominator of the level lattice in grid units (Y = p / D)  *)
(*   K, tol    fixed-point scale and tolerance of recorded crossing values *)
(*   owners    the CLASSIFIED intervals of the right kind (interstorm      *)
(*             intervals / matched rises): [start, samples <<x, p>>...]    *)
(*             built by the harness from the classified tables, the stored *)
(*             water levels and (rises) the storm's total rain depth:      *)
(*             recession: the interval's own samples, x = steps since its  *)
(*             first sample; rise: the segment <<0, p_initial>> ->         *)
(*             <<depth, p_final>>                                          *)
(*   members   start of every interval entered in the master curve         *)
(*   rows      the *_interval_zeta rows: [start, n, v] (v in fixed point)  *)
(*   grid      [lo, hi, count] of discrete_zeta, [minp, maxp] of the       *)
(*             stored water levels (in p units)                            *)
(* Judged: every member and every row belongs to an owner of the right     *)
(* kind; each row's value is the mean crossing position of level n on the  *)
(* owner's own series (Regrid.tla); every owner level that the series      *)
(* crosses and that is kept appears; levels lie in the grid; the grid is   *)
(* floor(min/step) .. ceil(max/step) - 1, complete.                        *)
(***************************************************************************)
EXTENDS Regrid, TLC, Json, IOUtils

Cases == JsonDeserialize(IOEnv.TRACE_FILE)
VARIABLES ci, ok

Fail(c, clause, w) == PrintT("FAIL " \o ToJson([id |-> c.id, stretch |-> w, clause |-> clause]))
Chk(cond, c, clause, w) == IF cond THEN TRUE ELSE Fail(c, clause, w)
Abs(x) == IF x < 0 THEN -x ELSE x

OwnerStarts(c) == {c.owners[k].start : k \in 1..Len(c.owners)}
OwnerOf(c, s) == c.owners[CHOOSE k \in 1..Len(c.owners) : c.owners[k].start = s]
Series(o) == [k \in 1..Len(o.samples) |-> [x |-> o.samples[k][1], p |-> o.samples[k][2], e |-> 0]]

(* sum of the positions of level n in a report, as <<num, den>> over the    *)
(* product of denominators, and their count                                *)
RECURSIVE SumPos(_, _, _)
SumPos(rep, n, k) ==
    IF k > Len(rep) THEN <<0, 1, 0>>
    ELSE LET rest == SumPos(rep, n, k + 1) IN
         IF rep[k][1] # n THEN rest
         ELSE <<rep[k][2][1] * rest[2] + rest[1] * rep[k][2][2], rep[k][2][2] * rest[2], rest[3] + 1>>

RowOK(c, r) ==
    LET o == OwnerOf(c, r.start)
        ser == Series(o)
        rng == (r.n - 1)..(r.n + 1)
        rep == Regrid(ser, c.D, rng)
        sp == SumPos(rep, r.n, 1)          \* mean = sp[1] / (sp[2] * sp[3])
    IN  \/ /\ sp[3] >= 1
           /\ Abs(r.v * sp[2] * sp[3] - sp[1] * c.K) <= c.tol * sp[2] * sp[3]
        \* where the grid step is not a binary fraction, a sample ON a grid line may fall
        \* either side of it in floating point: the level is then (also) crossed AT that sample
        \/ /\ c.grid.slack > 0
           /\ \E k \in 1..Len(o.samples) :
                 /\ Abs(o.samples[k][2] - r.n * c.D) <= c.grid.slack
                 /\ Abs(r.v - o.samples[k][1] * c.K) <= c.tol

Judge(c) ==
    /\ Chk(\A k \in 1..Len(c.members) : c.members[k] \in OwnerStarts(c), c,
           "C13 an interval entered in the master curve is not a classified interval of the right kind", 0)
    /\ \A k \in 1..Len(c.rows) :
         /\ Chk(c.rows[k].start \in OwnerStarts(c), c, "C13 a crossing row has no classified owner of the right kind", k)
         /\ Chk(c.rows[k].start \in OwnerStarts(c) => RowOK(c, c.rows[k]), c,
                "C13 a crossing value is not the mean crossing position computed from the owner's own samples", k)
         /\ Chk(c.grid.lo <= c.rows[k].n /\ c.rows[k].n <= c.grid.hi, c, "C13 a curve level is outside the water-level grid", k)
    /\ Chk(c.grid.count = c.grid.hi - c.grid.lo + 1, c, "C13 the water-level grid has holes", 0)
    \* c.grid.slack = 0 on exact lattices; 1 fixed-point unit where the grid step is not a
    \* binary fraction (a level ON a grid line may then fall either side of it in floating point)
    /\ Chk(c.grid.lo * c.D <= c.grid.minp + c.grid.slack /\ c.grid.minp - c.grid.slack < (c.grid.lo + 1) * c.D, c,
           "C13 the grid does not start at floor(min level / step)", 0)
    /\ Chk(c.grid.hi * c.D < c.grid.maxp + c.grid.slack /\ c.grid.maxp - c.grid.slack <= (c.grid.hi + 1) * c.D, c,
           "C13 the grid does not end at ceil(max level / step) - 1", 0)

Init == ci = 1 /\ ok = TRUE
Next == ci <= Len(Cases) /\ ok' = Judge(Cases[ci]) /\ ci' = ci + 1
Spec == Init /\ [][Next]_<<ci, ok>>
AllConsumed == TLCGet("stats").diameter - 1 = Len(Cases) \/ Len(Cases) = 0
=============================================================================
