------------------------------ MODULE MCHydro ------------------------------
(***************************************************************************)
(* Behaviours of the planted-truth generator: every event sequence up to   *)
(* MaxEv events (exhaustive for small MaxEv, -simulate for long ones).     *)
(* Invariant: the classifier's definitions recover exactly what was        *)
(* planted.  Finished behaviours are emitted for replay through the CLI.   *)
(***************************************************************************)
EXTENDS Hydro, TLC, Json

CONSTANTS MaxEv, StartKs, MaxRecede, StormLens, MaxGap, EmitAt, ForceDrizzle

\* truths (a cfg file cannot write tuples)
TruthA == <<100, 90, 81, 73, 66, 60, 55, 51, 48, 46, 45>>
TruthB == <<40, 34, 28, 22, 18, 14, 10, 8, 6, 4, 2, 1, 0>>
TruthC == <<12, 8, 5, 3, 2, 1, 0, -1, -3, -6, -10>>
VARIABLES g
vars == <<g>>

Init == \E k0 \in StartKs : g = GenInit(k0)

DoRecede == \E m \in 1..MaxRecede : CanRecede(g, m) /\ g' = Recede(g, m)
DoStorm == \E k2 \in 0..K, d \in StormLens : CanStorm(g, k2, d) /\ g' = Storm(g, k2, d)
DoDrizzle == CanDrizzle(g) /\ g' = Drizzle(g)
DoGap == \E n \in 1..MaxGap : CanGap(g, n) /\ g' = Gap(g, n)

(* ForceDrizzle: a storm is always followed by a drizzle step (so that the  *)
(* recession after it is recorded); otherwise anything enabled may follow   *)
AfterStorm == g.ev # <<>> /\ g.ev[Len(g.ev)].type = "storm"
Next ==
    /\ Len(g.ev) < MaxEv
    /\ IF ForceDrizzle /\ AfterStorm THEN DoDrizzle
       ELSE (DoRecede \/ DoStorm \/ DoDrizzle \/ DoGap)
Spec == Init /\ [][Next]_vars

Inv_ClassifiedEqualsPlanted == ClassifiedEqualsPlanted(g)
(* the lattice position always matches the generated levels *)
Inv_OnLattice ==
    Len(g.rain) >= 1 =>
        LevelAt(g, Len(Record(g)), Len(g.rain) + 1) = Z(g.k)

Planted(str) == [storm |-> PlantedStorms(g, str), depth |-> PlantedDepth(g, str),
                 rec |-> PlantedRecessionsLong(g, str)]

EmitInv ==
    (Len(g.ev) \in EmitAt) =>
        PrintT("EMIT " \o ToJson([
            rec |-> Record(g), ev |-> g.ev, zstar |-> ZStar, syden |-> SyDen,
            first |-> [str \in 1..Len(Record(g)) |-> LevelAt(g, str, 1)],
            planted |-> [str \in 1..Len(Record(g)) |-> Planted(str)],
            recPieces |-> RecessionPieces(g), risePieces |-> RisePieces(g),
            recOK |-> [d2 \in {1, 2, 4} |-> RecAssemblable(g, d2)],
            riseOK |-> [d2 \in {1, 2, 4} |-> RiseAssemblable(g, d2)]]))
=============================================================================
