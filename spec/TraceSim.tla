------------------------------ MODULE TraceSim ------------------------------
(***************************************************************************)
(* C17 / C18, code -> specification, at the command-line level.  The       *)
(* harness ran `spowtd simulate rise|recession` (with and without          *)
(* --observations) on a dataset with assembled curves, with a parameter    *)
(* file whose specific yield is a polynomial on its knots (so that         *)
(* Hydraulics.tla knows its integrals exactly) and recorded the parsed     *)
(* output, the master-curve view and -- for recession -- the ET series and *)
(* the member recession intervals.  Levels are doubled millimetres (lv2).  *)
(*                                                                         *)
(* kind "rise":  rows <<lv2, measured, simulated>> (fixed point K)         *)
(*   rows list exactly the view's levels, ascending, in mm; measured = the *)
(*   view; simulated differences = integrals of specific yield (SyDiv      *)
(*   divides the polynomial: Sy = f / SyDiv); mean(sim) = mean(measured);  *)
(*   the --observations vector is the simulated column.                    *)
(* kind "recession": rows from highest to lowest level, in mm; measured =  *)
(*   view / 86400; the bare vector is the simulated column; and for every  *)
(*   consecutive pair of levels the quantity  -dW / dt  recovered from the *)
(*   two simulated curves (used[k], mm/d, fixed point) equals              *)
(*        24 * (time-average of ET over all steps [a, z) of the member     *)
(*        recession intervals)  +  extra   (extra = curvature x T_min)     *)
(***************************************************************************)
EXTENDS Hydraulics, TLC, Json, IOUtils

Cases == JsonDeserialize(IOEnv.TRACE_FILE)
VARIABLES ci, ok
Fail(c, clause, w) == PrintT("FAIL " \o ToJson([id |-> c.id, stretch |-> w, clause |-> clause]))
Chk(cond, c, clause, w) == IF cond THEN TRUE ELSE Fail(c, clause, w)
AbsV(x) == IF x < 0 THEN -x ELSE x
SumSeq(s) == LET RECURSIVE f(_)
                 f(k) == IF k = 0 THEN 0 ELSE f(k - 1) + s[k]
             IN  f(Len(s))
Col(rows, j) == [k \in 1..Len(rows) |-> rows[k][j]]

JudgeRise(c) ==
    LET n == Len(c.rows)
        grid == Col(c.rows, 1)
        cum == Cum192(c.poly, c.lo2, c.hi2, grid)
    IN
    /\ Chk(n = Len(c.view) /\ \A k \in 1..n : c.rows[k][1] = c.view[k][1], c,
           "C17 the output does not list exactly the levels of the measured master curve, in mm", 0)
    /\ Chk(\A k \in 1..(n - 1) : c.rows[k][1] < c.rows[k + 1][1], c, "C17 levels are not in ascending order", 0)
    /\ Chk(n = Len(c.view) => \A k \in 1..n : AbsV(c.rows[k][2] - c.view[k][2]) <= c.tol, c,
           "C17 the measured column is not the master rise curve", 0)
    /\ \A k \in 2..n :
         \* (W_k - W_1) * 192 * SyDiv = (cum_k - cum_1) * K   within the rounding budget
         Chk(AbsV((c.rows[k][3] - c.rows[1][3]) * 192 * c.SyDiv - (cum[k] - cum[1]) * c.K) <= c.tol * 192 * c.SyDiv * 2, c,
             "C17 simulated storage difference is not the integral of specific yield", k)
    /\ Chk(AbsV(SumSeq(Col(c.rows, 3)) - SumSeq(Col(c.rows, 2))) <= c.tol * n, c,
           "C17 the mean of the simulated curve is not the mean of the measured curve", 0)
    /\ Chk(Len(c.obs) = n /\ \A k \in 1..n : AbsV(c.obs[k] - c.rows[k][3]) <= c.tol, c,
           "C17 the --observations vector is not the simulated column", 0)

(* sum and count of ET over the steps [a, z) of the member intervals *)
EtSum(c) == LET RECURSIVE f(_)
                f(q) == IF q = 0 THEN 0
                        ELSE f(q - 1) + SumSeq([k \in 1..(c.intervals[q][2] - c.intervals[q][1]) |->
                                                   c.et[c.intervals[q][1] + k]])     \* et[i + 1] = step starting at sample i
            IN  f(Len(c.intervals))
EtCount(c) == SumSeq([q \in 1..Len(c.intervals) |-> c.intervals[q][2] - c.intervals[q][1]])

(* curvature x transmissivity on step k (mm/d, fixed point): T_min when the curve lies below the    *)
(* conductivity knots; recorded per step when T varies with the level (PEATCLSM)                    *)
ExtraAt(c, k) == IF "extras" \in DOMAIN c THEN c.extras[k] ELSE c.extra

JudgeRecession(c) ==
    LET n == Len(c.rows) IN
    /\ Chk(n = Len(c.view) /\ \A k \in 1..n : c.rows[k][1] = c.view[n + 1 - k][1], c,
           "C18 the output does not list the levels of the master recession curve, in mm, from highest to lowest", 0)
    /\ Chk(\A k \in 1..(n - 1) : c.rows[k][1] > c.rows[k + 1][1], c, "C18 levels are not in descending order", 0)
    /\ Chk(n = Len(c.view) => \A k \in 1..n : AbsV(c.rows[k][2] - c.view[n + 1 - k][2]) <= c.tol, c,
           "C18 the measured column is not the master recession curve in days", 0)
    /\ Chk(Len(c.obs) = n /\ \A k \in 1..n : AbsV(c.obs[k] - c.rows[k][3]) <= c.tol, c,
           "C18 the --observations vector is not the simulated column", 0)
    /\ Chk(\A k \in 1..(n - 1) : c.rows[k][3] < c.rows[k + 1][3], c, "C18 simulated time does not increase as the level falls", 0)
    /\ Chk(AbsV(SumSeq(Col(c.rows, 3)) - SumSeq(Col(c.rows, 2))) <= c.tol * n, c,
           "C18 the mean of the simulated curve is not the mean of the measured curve", 0)
    \* used[k] * EtUnit * count = 24 * sum * KU + extra * EtUnit * count   (EtUnit: ET integers per mm/h)
    /\ \A k \in 1..Len(c.used) :
         Chk(AbsV((c.used[k] - ExtraAt(c, k)) * c.EtUnit * EtCount(c) - 24 * EtSum(c) * c.KU)
                <= c.tolU * c.EtUnit * EtCount(c), c,
             "C18 the ET used is not the time-average over all time steps of the recession intervals (water balance)", k)

Judge(c) == IF c.kind = "rise" THEN JudgeRise(c) ELSE JudgeRecession(c)
Init == ci = 1 /\ ok = TRUE
Next == ci <= Len(Cases) /\ ok' = Judge(Cases[ci]) /\ ci' = ci + 1
Spec == Init /\ [][Next]_<<ci, ok>>
AllConsumed == TLCGet("stats").diameter - 1 = Len(Cases) \/ Len(Cases) = 0
=============================================================================
