--------------------------------- MODULE Pest ---------------------------------
(***************************************************************************)
(* C19: the calibration files generated for PEST and the output of the     *)
(* simulate commands describe the same problem (spowtd/pestfiles.py,       *)
(* simulate_rise.py, simulate_recession.py).                               *)
(*                                                                         *)
(* A shape is [kind |-> "rise" | "curves", par |-> "spline" | "peatclsm",  *)
(* nsy, nk (numbers of specific-yield / conductivity knots), nrise, nrec   *)
(* (numbers of levels of the two master curves)].  Names are compared in   *)
(* lower case: PEST folds case.                                            *)
(***************************************************************************)
EXTENDS Integers, Sequences, FiniteSets, TLC

Num(prefix, n) == [k \in 1..n |-> prefix \o ToString(k)]
SeqSet(s) == {s[k] : k \in 1..Len(s)}

(* the adjustable parameters of a shape, in the order of the control file *)
ParNames(sh) ==
    IF sh.par = "spline"
    THEN Num("sy_knot_", sh.nsy) \o (IF sh.kind = "curves" THEN Num("k_knot_", sh.nk) \o <<"t_min">> ELSE <<>>)
    ELSE <<"sd", "theta_s", "b", "psi_s">> \o (IF sh.kind = "curves" THEN <<"ksmacz0", "alpha">> ELSE <<>>)
NParGroups(sh) ==
    IF sh.par = "spline" THEN (IF sh.kind = "curves" THEN 3 ELSE 1)
    ELSE (IF sh.kind = "curves" THEN 6 ELSE 4)
NObs(sh) == IF sh.kind = "curves" THEN sh.nrise + sh.nrec ELSE sh.nrise
ObsNames(sh) == Num("e", NObs(sh))
ObsGroup(sh, k) == IF k <= sh.nrise THEN "storageobs" ELSE "timeobs"
NObsGroups(sh) == IF sh.kind = "curves" THEN 2 ELSE 1

(* instruction file: marker, then one "l1 [e_k]3:24" per level; for curves *)
(* a second marker before the recession levels                             *)
Markers(sh) == IF sh.kind = "curves" THEN <<"# rise curve simulation vector", "# recession curve simulation vector">>
               ELSE <<"# rise curve simulation vector">>
FieldLo == 3
FieldHi == 24
FieldWidth == FieldHi - FieldLo + 1

(* the relation between the generated artefacts f = [tpl, ins, pst, master, sim] *)
CountsMatch(f) ==
    /\ f.pst.npar = Len(f.pst.pars)
    /\ f.pst.nobs = Len(f.pst.obs)
    /\ f.pst.npargp = Len(f.pst.pargroups)
    /\ f.pst.nobsgp = Len(f.pst.obsgroups)
NamesMatch(f) == SeqSet(f.pst.pars) = SeqSet(f.tpl.placeholders) /\ Len(f.pst.pars) = Len(f.tpl.placeholders)
GroupsDeclared(f) ==
    /\ \A k \in 1..Len(f.pst.obs) : f.pst.obs[k][3] \in SeqSet(f.pst.obsgroups)
    /\ \A k \in 1..Len(f.pst.pargroupof) : f.pst.pargroupof[k] \in SeqSet(f.pst.pargroups)
(* k-th observation = k-th instruction = k-th measured value *)
ObsAligned(f) ==
    /\ Len(f.ins.obs) = Len(f.pst.obs)
    /\ \A k \in 1..Len(f.pst.obs) : f.ins.obs[k][1] = f.pst.obs[k][1]
    /\ \A k \in 1..Len(f.ins.obs) : f.ins.obs[k][2] = FieldLo /\ f.ins.obs[k][3] = FieldHi
ObsAreMeasured(f) ==       \* text reads back as the identical float (hex strings)
    /\ Len(f.master) = Len(f.pst.obs)
    /\ \A k \in 1..Len(f.pst.obs) : f.pst.obs[k][2] = f.master[k]
(* the simulation output has one value line per instruction after each marker, each
   value fits the columns the instruction reads *)
SimAligned(f) ==
    /\ f.sim.markers = f.ins.markers
    /\ Len(f.sim.lens) = Len(f.ins.obs)
    /\ \A k \in 1..Len(f.sim.lens) : f.sim.start[k] = FieldLo
SimFits(f, k) == f.sim.lens[k] <= FieldWidth
(* the k-th value of the --observations output is the simulated value at the level of the k-th
   observation: it equals the k-th row of the tabulated output, whose level is the k-th level
   of the measured curves (rise ascending, then recession from highest to lowest) *)
SimAtSameLevels(f) ==
    /\ f.sim.values = f.table.values
    /\ f.table.levels = f.masterlevels
TemplateFills(f) == f.tpl.filled = f.tpl.original
ShapeAsExpected(f, sh) ==
    /\ f.pst.pars = ParNames(sh)
    /\ Len(f.pst.pargroups) = NParGroups(sh)
    /\ [k \in 1..Len(f.pst.obs) |-> f.pst.obs[k][1]] = ObsNames(sh)
    /\ \A k \in 1..Len(f.pst.obs) : f.pst.obs[k][3] = ObsGroup(sh, k)
    /\ Len(f.pst.obsgroups) = NObsGroups(sh)
    /\ f.ins.markers = Markers(sh)
=============================================================================
