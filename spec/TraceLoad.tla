------------------------------ MODULE TraceLoad ------------------------------
(***************************************************************************)
(* Code -> specification for `spowtd load` on long real inputs.  The trace *)
(* merges, in time order, the SOURCE water-level rows ("src": t, z) with   *)
(* the rows the real load STORED per grid instant ("grid": g, label,       *)
(* level, rain, et and the source rain / et rows of that instant).  A grid *)
(* event is placed right after the first source row with t >= g (at the    *)
(* end if there is none); the specification verifies the placement itself. *)
(* Times are in ticks, values in fixed point.                              *)
(*                                                                         *)
(* Judged (C10): uniform grid; a level exactly where the instant is not    *)
(* strictly inside a gap of the source record (and is not the closing      *)
(* instant); level = linear interpolation of the two bracketing source     *)
(* rows (within Tol fixed-point units); labels constant between gaps and   *)
(* increasing across them; rain and ET equal to the source rows.           *)
(***************************************************************************)
EXTENDS Integers, Sequences, TLC, Json, IOUtils

T == JsonDeserialize(IOEnv.TRACE_FILE)
Ev == T.events
N == Len(Ev)

VARIABLES l, p1, p2, lab, sawStep, lastG, lastCodeLabel, lastSpecLabel
vars == <<l, p1, p2, lab, sawStep, lastG, lastCodeLabel, lastSpecLabel>>

None == [t |-> -1, z |-> 0]
Fail(clause) == PrintT("FAIL " \o ToJson([id |-> T.id, stretch |-> l, clause |-> clause]))
Chk(cond, clause) == IF cond THEN TRUE ELSE Fail(clause)
Abs(x) == IF x < 0 THEN -x ELSE x

Init ==
    /\ l = 1 /\ p1 = None /\ p2 = None /\ lab = 1 /\ sawStep = FALSE
    /\ lastG = -1 /\ lastCodeLabel = 0 /\ lastSpecLabel = 0

Src ==
    /\ l <= N /\ Ev[l].k = "src"
    /\ LET e == Ev[l] IN
       /\ Chk(p2.t < e.t, "source rows not in time order")
       /\ Chk(p2.t = -1 \/ e.t - p2.t >= T.srcStep, "a source spacing is below the declared source step")
       /\ sawStep' = (sawStep \/ (p2.t # -1 /\ e.t - p2.t = T.srcStep))
       /\ lab' = (IF p2.t # -1 /\ e.t - p2.t > T.srcStep THEN lab + 1 ELSE lab)
       /\ p1' = p2
       /\ p2' = [t |-> e.t, z |-> e.z]
    /\ l' = l + 1
    /\ UNCHANGED <<lastG, lastCodeLabel, lastSpecLabel>>

Grid ==
    /\ l <= N /\ Ev[l].k = "grid"
    /\ LET e == Ev[l]
           g == e.g
           beyond == p2.t < g                      \* after the last source row
           onRow == p2.t = g
           between == p1.t # -1 /\ p1.t < g /\ g < p2.t
           inGap == between /\ (p2.t - p1.t > T.srcStep)
           specLabel == IF inGap THEN 0 ELSE lab
           wantLevel == ~e.closing /\ ~inGap /\ ~beyond /\ (onRow \/ between)
       IN
       /\ Chk(beyond \/ onRow \/ between \/ (p1.t = -1 /\ g < p2.t), "grid event misplaced in the trace")
       /\ Chk(~(p1.t = -1 /\ g < p2.t /\ ~onRow), "grid instant before the first water-level row")
       /\ Chk(lastG = -1 \/ g - lastG = T.step, "C10 grid not uniform")
       /\ Chk(e.hasLevel = wantLevel, "C10 a level is stored exactly for non-closing instants not strictly inside a gap")
       /\ Chk((e.hasLevel /\ onRow) => Abs(e.lev - p2.z) <= T.tol, "C10 level at a measured instant differs from the measurement")
       \* (a level stored inside a gap is already rejected above; its product would overflow 32 bits)
       /\ Chk((e.hasLevel /\ between /\ ~inGap) =>
                Abs(e.lev * (p2.t - p1.t) - (p1.z * (p2.t - p1.t) + (g - p1.t) * (p2.z - p1.z)))
                    <= T.tol * (p2.t - p1.t),
              "C10 level is not the linear interpolation of the bracketing measurements")
       /\ Chk((specLabel = 0) = (e.label = 0), "C10 label present inside a gap / absent outside")
       /\ Chk((specLabel # 0 /\ lastSpecLabel # 0) =>
                ((specLabel = lastSpecLabel) = (e.label = lastCodeLabel)) /\ e.label >= lastCodeLabel,
              "C10 labels must be constant between gaps and distinct across them")
       /\ Chk(e.closing \/ (e.rain = e.srcRain /\ e.et = e.srcEt), "C10 rain / ET differ from the source row of the step")
       /\ lastG' = g
       /\ lastCodeLabel' = (IF specLabel # 0 THEN e.label ELSE lastCodeLabel)
       /\ lastSpecLabel' = (IF specLabel # 0 THEN specLabel ELSE lastSpecLabel)
    /\ l' = l + 1
    /\ UNCHANGED <<p1, p2, lab, sawStep>>

Finish ==
    /\ l = N + 1
    /\ Chk(sawStep, "declared source step never observed")
    /\ l' = N + 2
    /\ UNCHANGED <<p1, p2, lab, sawStep, lastG, lastCodeLabel, lastSpecLabel>>

Next == Src \/ Grid \/ Finish
Spec == Init /\ [][Next]_vars
AllConsumed == TLCGet("stats").diameter = N + 2
=============================================================================
