------------------------------ MODULE MCSpowtd ------------------------------
(* Spowtd.tla with every explored transition emitted as an edge, so that   *)
(* the harness can replay every edge of the state graph against the CLI.   *)
EXTENDS Spowtd, Json

St == [disk |-> disk, cmd |-> txn.cmd, arg |-> txn.arg, pc |-> txn.pc]
Edge(act, c) == PrintT("EMIT " \o ToJson([from |-> St, act |-> act, c |-> c, to |-> St',
                                           why |-> IF act \in {"doomed", "readfail"} THEN Outcome(disk, c) ELSE "ok"]))

NextE ==
    \/ \E c \in Commands : (Begin(c) /\ Edge("begin", c)) \/ (Doomed(c) /\ Edge("doomed", c))
    \/ \E c \in ReadOnly : (Read(c) /\ Edge("read", c)) \/ (ReadFails(c) /\ Edge("readfail", c))
    \/ (Write /\ Edge("write", <<"none", "none">>))
    \/ (Commit /\ Edge("commit", <<"none", "none">>))
    \/ (Fail /\ Edge("fail", <<"none", "none">>))
    \/ (Kill /\ Edge("kill", <<"none", "none">>))
SpecE == Init /\ [][NextE]_vars /\ WF_vars(Write) /\ WF_vars(Commit)
=============================================================================
