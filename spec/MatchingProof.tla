--------------------------- MODULE MatchingProof ---------------------------
(***************************************************************************)
(* TLAPS proof, for an ARBITRARY instance (any number of storms and rises, *)
(* any preferences, ties allowed) and ANY order in which storms are taken  *)
(* from the pool, that the deferred-acceptance loop of Matching.tla keeps  *)
(* its invariants and that, when the pool is empty, the matching is stable *)
(* in the sense of C02 (no blocking pair).                                 *)
(***************************************************************************)
EXTENDS Matching, FiniteSetTheorems, TLAPS

CONSTANT I
E == I.E
Storms == StormsOf(E)
Rises == RisesOf(E)

ASSUME InstOK ==
    /\ I.dur \in [I.E -> Int]
    /\ I.off \in [I.E -> Int]
    /\ \A e \in I.E : e = <<e[1], e[2]>>

Step(L, L2) == \E s \in L.pool : \E r \in Best(I, s, L.rem[s]) : L2 = Iterate(I, L, s, r)

TypeOK(L) ==
    /\ L.pool \subseteq Storms
    /\ L.rem \in [Storms -> SUBSET Rises]
    /\ L.M \subseteq E
    /\ \A s \in Storms : \A r \in L.rem[s] : <<s, r>> \in E

Inv(L) ==
    /\ TypeOK(L)
    /\ \A s \in L.pool : L.rem[s] # {}                                          \* I1
    /\ \A s \in L.pool : \A r \in Rises : <<s, r>> \notin L.M                   \* I2
    /\ \A a, b \in L.M : (a[1] = b[1] \/ a[2] = b[2]) => a = b                  \* I3
    /\ \A e \in L.M : e[2] \notin L.rem[e[1]]                                   \* I4
    /\ \A s \in Storms : (s \notin L.pool /\ \A r \in Rises : <<s, r>> \notin L.M) => L.rem[s] = {}   \* I5
    /\ \A e \in E : e[2] \notin L.rem[e[1]] =>
          \E c \in Storms : <<c, e[2]>> \in L.M /\ I.off[<<c, e[2]>>] <= I.off[e]   \* I6
    /\ \A m \in L.M : \A e \in E :
          (e[1] = m[1] /\ I.dur[e] < I.dur[m]) => e[2] \notin L.rem[e[1]]   \* I7

LEMMA InitInv == Inv(LoopInit(I))
<1> DEFINE L == LoopInit(I)
<1>1. L.pool = Storms /\ L.M = {} /\ L.rem = [s \in Storms |-> {e[2] : e \in {x \in E : x[1] = s}}]
    BY DEF LoopInit, Storms, E
<1>2. TypeOK(L)
    <2>1. L.rem \in [Storms -> SUBSET Rises]
        BY <1>1 DEF Rises, RisesOf
    <2>2. \A s \in Storms : \A r \in L.rem[s] : <<s, r>> \in E
        <3> SUFFICES ASSUME NEW s \in Storms, NEW r \in L.rem[s] PROVE <<s, r>> \in E
            OBVIOUS
        <3>1. PICK e \in E : e[1] = s /\ r = e[2]
            BY <1>1
        <3>2. e = <<e[1], e[2]>>
            BY InstOK DEF E
        <3> QED
            BY <3>1, <3>2
    <2> QED
        BY <1>1, <2>1, <2>2 DEF TypeOK
<1>3. \A s \in L.pool : L.rem[s] # {}
    BY <1>1 DEF Storms, StormsOf
<1>4. \A e \in E : e[2] \in L.rem[e[1]]
    BY <1>1 DEF Storms, StormsOf
<1> QED
    BY <1>1, <1>2, <1>3, <1>4 DEF Inv

LEMMA StormOfIn ==
    ASSUME NEW M, M \subseteq E, NEW r, RiseMatched(M, r)
    PROVE  <<StormOf(M, r), r>> \in M
<1>1. PICK e \in M : e[2] = r
    BY DEF RiseMatched
<1>2. e = <<e[1], r>>
    BY <1>1, InstOK DEF E
<1>3. e[1] \in StormsOf(M)
    BY DEF StormsOf
<1>4. \E s \in StormsOf(M) : <<s, r>> \in M
    BY <1>2, <1>3
<1> QED
    BY <1>4 DEF StormOf

LEMMA RiseOfIn ==
    ASSUME NEW M, M \subseteq E, NEW s, StormMatched(M, s)
    PROVE  <<s, RiseOf(M, s)>> \in M
<1>1. PICK e \in M : e[1] = s
    BY DEF StormMatched
<1>2. e = <<s, e[2]>>
    BY <1>1, InstOK DEF E
<1>3. e[2] \in RisesOf(M)
    BY DEF RisesOf
<1>4. \E r \in RisesOf(M) : <<s, r>> \in M
    BY <1>2, <1>3
<1> QED
    BY <1>4 DEF RiseOf

LEMMA StepInv ==
    ASSUME NEW L, Inv(L), NEW s \in L.pool, NEW r \in Best(I, s, L.rem[s]),
           NEW L2, L2 = Iterate(I, L, s, r)
    PROVE  Inv(L2)
<1> DEFINE rem1 == [L.rem EXCEPT ![s] = @ \ {r}]
<1> DEFINE pool1 == L.pool \ {s}
<1> USE DEF Inv
<1>a. TypeOK(L) /\ s \in Storms /\ r \in L.rem[s] /\ r \in Rises /\ <<s, r>> \in E
    BY DEF TypeOK, Best
<1>b. \A q \in L.rem[s] : I.dur[<<s, r>>] <= I.dur[<<s, q>>]
    BY DEF Best
<1>c. \A e \in E : e = <<e[1], e[2]>> /\ e[1] \in Storms /\ e[2] \in Rises
    BY InstOK DEF E, Storms, Rises, StormsOf, RisesOf
<1>d. /\ rem1 \in [Storms -> SUBSET Rises]
      /\ rem1[s] = L.rem[s] \ {r}
      /\ \A t \in Storms : t # s => rem1[t] = L.rem[t]
      /\ \A t \in Storms : rem1[t] \subseteq L.rem[t]
    BY <1>a DEF TypeOK
<1>e. \A q \in Rises : <<s, q>> \notin L.M
    OBVIOUS
<1>f. \A e \in E : I.dur[e] \in Int /\ I.off[e] \in Int
    BY InstOK DEF E
<1>1. CASE ~RiseMatched(L.M, r)
    <2>1. L2 = [pool |-> pool1, rem |-> rem1, M |-> L.M \cup {<<s, r>>}]
        BY <1>1 DEF Iterate
    <2>2. L2.pool = pool1 /\ L2.rem = rem1 /\ L2.M = L.M \cup {<<s, r>>}
        BY <2>1
    <2>3. \A e \in L.M : e[2] # r
        BY <1>1 DEF RiseMatched
    <2>4. TypeOK(L2)
        BY <2>2, <1>a, <1>d DEF TypeOK
    <2>5. \A t \in L2.pool : L2.rem[t] # {}
        BY <2>2, <1>d, <1>a DEF TypeOK
    <2>6. \A t \in L2.pool : \A q \in Rises : <<t, q>> \notin L2.M
        BY <2>2
    <2>7. \A a, b \in L2.M : (a[1] = b[1] \/ a[2] = b[2]) => a = b
        BY <2>2, <2>3, <1>e, <1>c, <1>a DEF TypeOK
    <2>8. \A e \in L2.M : e[2] \notin L2.rem[e[1]]
        BY <2>2, <1>d, <1>c, <1>a DEF TypeOK
    <2>9. \A t \in Storms : (t \notin L2.pool /\ \A q \in Rises : <<t, q>> \notin L2.M) => L2.rem[t] = {}
        BY <2>2, <1>d, <1>a
    <2>10. \A e \in E : e[2] \notin L2.rem[e[1]] =>
              \E c \in Storms : <<c, e[2]>> \in L2.M /\ I.off[<<c, e[2]>>] <= I.off[e]
        <3> SUFFICES ASSUME NEW e \in E, e[2] \notin L2.rem[e[1]]
                     PROVE  \E c \in Storms : <<c, e[2]>> \in L2.M /\ I.off[<<c, e[2]>>] <= I.off[e]
            OBVIOUS
        <3>1. CASE e[1] = s /\ e[2] = r
            BY <3>1, <2>2, <1>c, <1>a, <1>f
        <3>2. CASE ~(e[1] = s /\ e[2] = r)
            <4>1. e[2] \notin L.rem[e[1]]
                BY <3>2, <2>2, <1>d, <1>c
            <4> QED
                BY <4>1, <2>2
        <3> QED
            BY <3>1, <3>2
    <2>11. \A m \in L2.M : \A e \in E :
              (e[1] = m[1] /\ I.dur[e] < I.dur[m]) => e[2] \notin L2.rem[e[1]]
        <3> SUFFICES ASSUME NEW m \in L2.M, NEW e \in E, e[1] = m[1], I.dur[e] < I.dur[m]
                     PROVE  e[2] \notin L2.rem[e[1]]
            OBVIOUS
        <3>1. CASE m \in L.M
            BY <3>1, <2>2, <1>d, <1>c, <1>a DEF TypeOK
        <3>2. CASE m = <<s, r>>
            <4>1. e = <<s, e[2]>>
                BY <3>2, <1>c
            <4>2. e[2] \in L.rem[s] => I.dur[<<s, r>>] <= I.dur[e]
                BY <4>1, <1>b
            <4>3. I.dur[e] \in Int /\ I.dur[<<s, r>>] \in Int
                BY <1>f, <1>a
            <4> QED
                BY <4>1, <4>2, <4>3, <3>2, <2>2, <1>d, <1>a
        <3> QED
            BY <3>1, <3>2, <2>2
    <2> QED
        BY <2>4, <2>5, <2>6, <2>7, <2>8, <2>9, <2>10, <2>11
<1>2. CASE RiseMatched(L.M, r) /\ I.off[<<s, r>>] < I.off[<<StormOf(L.M, r), r>>]
    <2> DEFINE cur == StormOf(L.M, r)
    <2> DEFINE pool2 == IF rem1[cur] # {} THEN pool1 \cup {cur} ELSE pool1
    <2> DEFINE M2 == (L.M \ {<<cur, r>>}) \cup {<<s, r>>}
    <2>0. <<cur, r>> \in L.M /\ cur \in Storms /\ cur # s /\ <<cur, r>> \in E
        <3>1. <<cur, r>> \in L.M
            BY <1>2, <1>a, StormOfIn DEF TypeOK
        <3> QED
            BY <3>1, <1>c, <1>e, <1>a DEF TypeOK
    <2>1. L2 = [pool |-> pool2, rem |-> rem1, M |-> M2]
        BY <1>2 DEF Iterate
    <2>2. L2.pool = pool2 /\ L2.rem = rem1 /\ L2.M = M2
        BY <2>1
    <2>3. \A e \in L.M : e[2] = r => e = <<cur, r>>
        BY <2>0
    <2>3a. \A e \in L.M : e[1] = cur => e = <<cur, r>>
        BY <2>0
    <2>4. TypeOK(L2)
        BY <2>2, <2>0, <1>a, <1>d DEF TypeOK
    <2>5. \A t \in L2.pool : L2.rem[t] # {}
        BY <2>2, <2>0, <1>d, <1>a DEF TypeOK
    <2>6. \A t \in L2.pool : \A q \in Rises : <<t, q>> \notin L2.M
        <3> SUFFICES ASSUME NEW t \in L2.pool, NEW q \in Rises, <<t, q>> \in L2.M PROVE FALSE
            OBVIOUS
        <3>1. t # s
            BY <2>2, <2>0
        <3>2. <<t, q>> \in L.M /\ <<t, q>> # <<cur, r>>
            BY <3>1, <2>2
        <3>3. CASE t = cur
            BY <3>3, <3>2, <2>3a
        <3>4. CASE t # cur
            BY <3>4, <3>1, <3>2, <2>2
        <3> QED
            BY <3>3, <3>4
    <2>7. \A a, b \in L2.M : (a[1] = b[1] \/ a[2] = b[2]) => a = b
        BY <2>2, <2>3, <1>e, <1>c, <1>a DEF TypeOK
    <2>8. \A e \in L2.M : e[2] \notin L2.rem[e[1]]
        BY <2>2, <1>d, <1>c, <1>a DEF TypeOK
    <2>9. \A t \in Storms : (t \notin L2.pool /\ \A q \in Rises : <<t, q>> \notin L2.M) => L2.rem[t] = {}
        <3> SUFFICES ASSUME NEW t \in Storms, t \notin L2.pool, \A q \in Rises : <<t, q>> \notin L2.M
                     PROVE  L2.rem[t] = {}
            OBVIOUS
        <3>1. t # s
            BY <2>2, <1>a
        <3>2. CASE t = cur
            BY <3>2, <2>2
        <3>3. CASE t # cur
            <4>1. t \notin L.pool
                BY <3>1, <2>2
            <4>2. \A q \in Rises : <<t, q>> \notin L.M
                BY <3>3, <2>2
            <4> QED
                BY <4>1, <4>2, <3>1, <2>2, <1>d
        <3> QED
            BY <3>2, <3>3
    <2>10. \A e \in E : e[2] \notin L2.rem[e[1]] =>
              \E c \in Storms : <<c, e[2]>> \in L2.M /\ I.off[<<c, e[2]>>] <= I.off[e]
        <3> SUFFICES ASSUME NEW e \in E, e[2] \notin L2.rem[e[1]]
                     PROVE  \E c \in Storms : <<c, e[2]>> \in L2.M /\ I.off[<<c, e[2]>>] <= I.off[e]
            OBVIOUS
        <3>1. CASE e[1] = s /\ e[2] = r
            BY <3>1, <2>2, <1>c, <1>a, <1>f
        <3>2. CASE ~(e[1] = s /\ e[2] = r)
            <4>1. e[2] \notin L.rem[e[1]]
                BY <3>2, <2>2, <1>d, <1>c
            <4>2. PICK c \in Storms : <<c, e[2]>> \in L.M /\ I.off[<<c, e[2]>>] <= I.off[e]
                BY <4>1
            <4>3. CASE <<c, e[2]>> = <<cur, r>>
                <5>1. e[2] = r /\ I.off[<<cur, r>>] <= I.off[e]
                    BY <4>2, <4>3
                <5>2. I.off[<<s, r>>] < I.off[<<cur, r>>]
                    BY <1>2
                <5>3. I.off[<<s, r>>] \in Int /\ I.off[<<cur, r>>] \in Int /\ I.off[e] \in Int
                    BY <1>f, <1>a, <2>0
                <5>4. I.off[<<s, r>>] <= I.off[e]
                    BY <5>1, <5>2, <5>3
                <5> QED
                    BY <5>1, <5>4, <2>2, <1>a
            <4>4. CASE <<c, e[2]>> # <<cur, r>>
                BY <4>2, <4>4, <2>2
            <4> QED
                BY <4>3, <4>4
        <3> QED
            BY <3>1, <3>2
    <2>11. \A m \in L2.M : \A e \in E :
              (e[1] = m[1] /\ I.dur[e] < I.dur[m]) => e[2] \notin L2.rem[e[1]]
        <3> SUFFICES ASSUME NEW m \in L2.M, NEW e \in E, e[1] = m[1], I.dur[e] < I.dur[m]
                     PROVE  e[2] \notin L2.rem[e[1]]
            OBVIOUS
        <3>1. CASE m \in L.M
            BY <3>1, <2>2, <1>d, <1>c, <1>a DEF TypeOK
        <3>2. CASE m = <<s, r>>
            <4>1. e = <<s, e[2]>>
                BY <3>2, <1>c
            <4>2. e[2] \in L.rem[s] => I.dur[<<s, r>>] <= I.dur[e]
                BY <4>1, <1>b
            <4>3. I.dur[e] \in Int /\ I.dur[<<s, r>>] \in Int
                BY <1>f, <1>a
            <4> QED
                BY <4>1, <4>2, <4>3, <3>2, <2>2, <1>d, <1>a
        <3> QED
            BY <3>1, <3>2, <2>2
    <2> QED
        BY <2>4, <2>5, <2>6, <2>7, <2>8, <2>9, <2>10, <2>11
<1>3. CASE RiseMatched(L.M, r) /\ ~(I.off[<<s, r>>] < I.off[<<StormOf(L.M, r), r>>])
    <2> DEFINE cur == StormOf(L.M, r)
    <2> DEFINE pool2 == IF rem1[s] # {} THEN pool1 \cup {s} ELSE pool1
    <2>0. <<cur, r>> \in L.M /\ cur \in Storms /\ <<cur, r>> \in E
        <3>1. <<cur, r>> \in L.M
            BY <1>3, <1>a, StormOfIn DEF TypeOK
        <3> QED
            BY <3>1, <1>c, <1>a DEF TypeOK
    <2>1. L2 = [pool |-> pool2, rem |-> rem1, M |-> L.M]
        BY <1>3 DEF Iterate
    <2>2. L2.pool = pool2 /\ L2.rem = rem1 /\ L2.M = L.M
        BY <2>1
    <2>4. TypeOK(L2)
        BY <2>2, <1>a, <1>d DEF TypeOK
    <2>5. \A t \in L2.pool : L2.rem[t] # {}
        BY <2>2, <1>d, <1>a DEF TypeOK
    <2>6. \A t \in L2.pool : \A q \in Rises : <<t, q>> \notin L2.M
        BY <2>2
    <2>7. \A a, b \in L2.M : (a[1] = b[1] \/ a[2] = b[2]) => a = b
        BY <2>2
    <2>8. \A e \in L2.M : e[2] \notin L2.rem[e[1]]
        BY <2>2, <1>d, <1>c, <1>a DEF TypeOK
    <2>9. \A t \in Storms : (t \notin L2.pool /\ \A q \in Rises : <<t, q>> \notin L2.M) => L2.rem[t] = {}
        BY <2>2, <1>d, <1>a
    <2>10. \A e \in E : e[2] \notin L2.rem[e[1]] =>
              \E c \in Storms : <<c, e[2]>> \in L2.M /\ I.off[<<c, e[2]>>] <= I.off[e]
        <3> SUFFICES ASSUME NEW e \in E, e[2] \notin L2.rem[e[1]]
                     PROVE  \E c \in Storms : <<c, e[2]>> \in L2.M /\ I.off[<<c, e[2]>>] <= I.off[e]
            OBVIOUS
        <3>1. CASE e[1] = s /\ e[2] = r
            <4>1. e = <<s, r>>
                BY <3>1, <1>c
            <4>2. I.off[<<s, r>>] \in Int /\ I.off[<<cur, r>>] \in Int
                BY <1>f, <1>a, <2>0
            <4>3. I.off[<<cur, r>>] <= I.off[<<s, r>>]
                BY <4>2, <1>3
            <4> QED
                BY <4>1, <4>3, <2>0, <2>2, <3>1
        <3>2. CASE ~(e[1] = s /\ e[2] = r)
            <4>1. e[2] \notin L.rem[e[1]]
                BY <3>2, <2>2, <1>d, <1>c
            <4> QED
                BY <4>1, <2>2
        <3> QED
            BY <3>1, <3>2
    <2>11. \A m \in L2.M : \A e \in E :
              (e[1] = m[1] /\ I.dur[e] < I.dur[m]) => e[2] \notin L2.rem[e[1]]
        BY <2>2, <1>d, <1>c, <1>a DEF TypeOK
    <2> QED
        BY <2>4, <2>5, <2>6, <2>7, <2>8, <2>9, <2>10, <2>11
<1> QED
    BY <1>1, <1>2, <1>3

(* C02 for instances of every size and every order of taking storms from the pool *)
THEOREM StableAtTermination ==
    ASSUME NEW L, Inv(L), LoopDone(L)
    PROVE  Stable(L.M, I)
<1> USE DEF Inv
<1>c. \A e \in E : e = <<e[1], e[2]>> /\ e[1] \in Storms /\ e[2] \in Rises
    BY InstOK DEF E, Storms, Rises, StormsOf, RisesOf
<1>f. \A e \in E : I.dur[e] \in Int /\ I.off[e] \in Int
    BY InstOK DEF E
<1>0. L.M \subseteq E /\ L.pool = {}
    BY DEF TypeOK, LoopDone
<1>1. IsMatching(L.M, I.E)
    BY <1>0 DEF IsMatching, E
<1>2. ASSUME NEW e \in I.E, Blocking(L.M, I, e) PROVE FALSE
    <2>0. e \in E /\ e \notin L.M
        BY <1>2 DEF Blocking, E
    <2>1. e[2] \notin L.rem[e[1]]
        <3>1. CASE ~StormMatched(L.M, e[1])
            <4>1. \A q \in Rises : <<e[1], q>> \notin L.M
                BY <3>1 DEF StormMatched
            <4> QED
                BY <4>1, <2>0, <1>0, <1>c
        <3>2. CASE StormMatched(L.M, e[1]) /\ I.dur[e] < I.dur[<<e[1], RiseOf(L.M, e[1])>>]
            <4>1. <<e[1], RiseOf(L.M, e[1])>> \in L.M
                BY <3>2, <1>0, RiseOfIn
            <4> QED
                BY <4>1, <3>2, <2>0
        <3> QED
            BY <3>1, <3>2, <1>2 DEF Blocking
    <2>2. PICK c \in Storms : <<c, e[2]>> \in L.M /\ I.off[<<c, e[2]>>] <= I.off[e]
        BY <2>0, <2>1
    <2>3. RiseMatched(L.M, e[2])
        BY <2>2 DEF RiseMatched
    <2>4. <<StormOf(L.M, e[2]), e[2]>> \in L.M
        BY <2>3, <1>0, StormOfIn
    <2>5. <<StormOf(L.M, e[2]), e[2]>> = <<c, e[2]>>
        BY <2>2, <2>4
    <2>6. I.off[e] < I.off[<<c, e[2]>>]
        BY <2>3, <2>5, <1>2 DEF Blocking
    <2>7. I.off[e] \in Int /\ I.off[<<c, e[2]>>] \in Int
        BY <2>0, <2>2, <1>0, <1>f
    <2> QED
        BY <2>2, <2>6, <2>7
<1> QED
    BY <1>1, <1>2 DEF Stable, NoBlockingPair

(* progress: every iteration removes one candidate from the proposer's list and adds none anywhere, *)
(* so for a finite instance the loop ends after at most |E| iterations                              *)
LEMMA StepShrinks ==
    ASSUME NEW L, Inv(L), NEW s \in L.pool, NEW r \in Best(I, s, L.rem[s]),
           NEW L2, L2 = Iterate(I, L, s, r)
    PROVE  /\ r \in L.rem[s]
           /\ L2.rem[s] = L.rem[s] \ {r}
           /\ \A t \in Storms : t # s => L2.rem[t] = L.rem[t]
<1>1. s \in Storms /\ L.rem \in [Storms -> SUBSET Rises] /\ r \in L.rem[s]
    BY DEF Inv, TypeOK, Best
<1>2. L2.rem = [L.rem EXCEPT ![s] = @ \ {r}]
    BY DEF Iterate
<1> QED
    BY <1>1, <1>2

(* the measure: candidate pairs not yet proposed.  It starts at |E| and loses exactly one element per    *)
(* iteration: for a finite instance the loop ends after at most Cardinality(E) iterations                *)
Remaining(L) == {e \in E : e[2] \in L.rem[e[1]]}

LEMMA MeasureInit == Remaining(LoopInit(I)) = E
<1> DEFINE L == LoopInit(I)
<1>1. L.rem = [s \in Storms |-> {e[2] : e \in {x \in E : x[1] = s}}]
    BY DEF LoopInit, Storms, E
<1>2. \A e \in E : e[2] \in L.rem[e[1]]
    BY <1>1 DEF Storms, StormsOf
<1> QED
    BY <1>2 DEF Remaining

THEOREM MeasureDecreases ==
    ASSUME IsFiniteSet(E), NEW L, Inv(L), NEW s \in L.pool, NEW r \in Best(I, s, L.rem[s]),
           NEW L2, L2 = Iterate(I, L, s, r)
    PROVE  /\ IsFiniteSet(Remaining(L))
           /\ Cardinality(Remaining(L2)) = Cardinality(Remaining(L)) - 1
<1>1. /\ r \in L.rem[s]
      /\ L2.rem[s] = L.rem[s] \ {r}
      /\ \A t \in Storms : t # s => L2.rem[t] = L.rem[t]
    BY StepShrinks
<1>2. s \in Storms /\ <<s, r>> \in E
    BY <1>1 DEF Inv, TypeOK
<1>c. \A e \in E : e = <<e[1], e[2]>> /\ e[1] \in Storms
    BY InstOK DEF E, Storms, StormsOf
<1>3. <<s, r>> \in Remaining(L)
    BY <1>1, <1>2 DEF Remaining
<1>4. Remaining(L2) = Remaining(L) \ {<<s, r>>}
    <2>1. \A e \in E : e[2] \in L2.rem[e[1]] <=> (e[2] \in L.rem[e[1]] /\ e # <<s, r>>)
        BY <1>1, <1>c
    <2> QED
        BY <2>1 DEF Remaining
<1>5. IsFiniteSet(Remaining(L))
    BY FS_Subset DEF Remaining
<1> QED
    BY <1>3, <1>4, <1>5, FS_RemoveElement

(***************************************************************************)
(* Storm-optimality (second sentence of C02).  A pair is achievable when   *)
(* some stable matching contains it.  J: a storm has only ever been        *)
(* refused (at its proposal, or displaced later) by rises it cannot have   *)
(* in ANY stable matching.  Needs NoTies, as the property says.            *)
(***************************************************************************)
Achievable(s, r) == \E M2 \in SUBSET E : Stable(M2, I) /\ <<s, r>> \in M2

J(L) == \A e \in E : (e[2] \notin L.rem[e[1]] /\ e \notin L.M) => ~Achievable(e[1], e[2])

LEMMA InitJ == J(LoopInit(I))
<1> DEFINE L == LoopInit(I)
<1>1. L.rem = [s \in Storms |-> {e[2] : e \in {x \in E : x[1] = s}}]
    BY DEF LoopInit, Storms, E
<1>2. \A e \in E : e[2] \in L.rem[e[1]]
    BY <1>1 DEF Storms, StormsOf
<1> QED
    BY <1>2 DEF J

(* r prefers s1 to s0, and s1 cannot do better than r in any stable matching: then s0 cannot have r *)
LEMMA RejectLemma ==
    ASSUME NoTies(I), NEW s0, NEW s1, NEW r, s1 # s0, <<s1, r>> \in E, <<s0, r>> \in E,
           I.off[<<s1, r>>] < I.off[<<s0, r>>],
           \A q : (<<s1, q>> \in E /\ I.dur[<<s1, q>>] < I.dur[<<s1, r>>]) => ~Achievable(s1, q)
    PROVE  ~Achievable(s0, r)
<1> SUFFICES ASSUME NEW M2 \in SUBSET E, Stable(M2, I), <<s0, r>> \in M2 PROVE FALSE
    BY DEF Achievable
<1>c. \A e \in E : e = <<e[1], e[2]>>
    BY InstOK DEF E
<1>f. \A e \in E : I.dur[e] \in Int /\ I.off[e] \in Int
    BY InstOK DEF E
<1>0. /\ \A a, b \in M2 : (a[1] = b[1] \/ a[2] = b[2]) => a = b
      /\ \A e \in I.E : ~Blocking(M2, I, e)
    BY DEF Stable, IsMatching, NoBlockingPair
<1>1. <<s1, r>> \notin M2
    BY <1>0
<1>2. RiseMatched(M2, r) /\ <<StormOf(M2, r), r>> = <<s0, r>>
    <2>1. RiseMatched(M2, r)
        BY DEF RiseMatched
    <2>2. <<StormOf(M2, r), r>> \in M2
        BY <2>1, StormOfIn
    <2> QED
        BY <2>1, <2>2, <1>0
<1>3. ~StormMatched(M2, s1) \/ I.dur[<<s1, r>>] < I.dur[<<s1, RiseOf(M2, s1)>>]
    <2>1. CASE StormMatched(M2, s1)
        <3> DEFINE q == RiseOf(M2, s1)
        <3>1. <<s1, q>> \in M2
            BY <2>1, RiseOfIn
        <3>2. Achievable(s1, q) /\ <<s1, q>> \in E
            BY <3>1 DEF Achievable
        <3>3. ~(I.dur[<<s1, q>>] < I.dur[<<s1, r>>])
            BY <3>2
        <3>4. <<s1, q>> # <<s1, r>>
            BY <3>1, <1>1
        <3>5. I.dur[<<s1, q>>] # I.dur[<<s1, r>>]
            BY <3>2, <3>4 DEF NoTies, E
        <3>6. I.dur[<<s1, q>>] \in Int /\ I.dur[<<s1, r>>] \in Int
            BY <3>2, <1>f
        <3> QED
            BY <3>3, <3>5, <3>6
    <2>2. CASE ~StormMatched(M2, s1)
        BY <2>2
    <2> QED
        BY <2>1, <2>2
<1>4. Blocking(M2, I, <<s1, r>>)
    BY <1>1, <1>2, <1>3 DEF Blocking, E
<1> QED
    BY <1>4, <1>0 DEF E

LEMMA StepJ ==
    ASSUME NoTies(I), NEW L, Inv(L), J(L), NEW s \in L.pool, NEW r \in Best(I, s, L.rem[s]),
           NEW L2, L2 = Iterate(I, L, s, r)
    PROVE  J(L2)
<1> DEFINE rem1 == [L.rem EXCEPT ![s] = @ \ {r}]
<1> USE DEF Inv
<1>a. TypeOK(L) /\ s \in Storms /\ r \in L.rem[s] /\ r \in Rises /\ <<s, r>> \in E
    BY DEF TypeOK, Best
<1>b. \A q \in L.rem[s] : I.dur[<<s, r>>] <= I.dur[<<s, q>>]
    BY DEF Best
<1>c. \A e \in E : e = <<e[1], e[2]>> /\ e[1] \in Storms /\ e[2] \in Rises
    BY InstOK DEF E, Storms, Rises, StormsOf, RisesOf
<1>d. /\ rem1[s] = L.rem[s] \ {r}
      /\ \A t \in Storms : t # s => rem1[t] = L.rem[t]
    BY <1>a DEF TypeOK
<1>e. \A q \in Rises : <<s, q>> \notin L.M
    OBVIOUS
<1>f. \A e \in E : I.dur[e] \in Int /\ I.off[e] \in Int
    BY InstOK DEF E
(* what the proposer cannot improve on *)
<1>g. \A q : (<<s, q>> \in E /\ I.dur[<<s, q>>] < I.dur[<<s, r>>]) => ~Achievable(s, q)
    <2> SUFFICES ASSUME NEW q, <<s, q>> \in E, I.dur[<<s, q>>] < I.dur[<<s, r>>] PROVE ~Achievable(s, q)
        OBVIOUS
    <2>1. q \notin L.rem[s]
        <3>1. I.dur[<<s, q>>] \in Int /\ I.dur[<<s, r>>] \in Int
            BY <1>f, <1>a
        <3> QED
            BY <3>1, <1>b
    <2>2. <<s, q>> \notin L.M
        BY <1>e, <1>c
    <2> QED
        BY <2>1, <2>2 DEF J
<1>1. CASE ~RiseMatched(L.M, r)
    <2>1. L2.rem = rem1 /\ L2.M = L.M \cup {<<s, r>>}
        BY <1>1 DEF Iterate
    <2> SUFFICES ASSUME NEW e \in E, e[2] \notin L2.rem[e[1]], e \notin L2.M PROVE ~Achievable(e[1], e[2])
        BY DEF J
    <2>2. e # <<s, r>> /\ e \notin L.M
        BY <2>1
    <2>3. e[2] \notin L.rem[e[1]]
        BY <2>1, <2>2, <1>d, <1>c
    <2> QED
        BY <2>2, <2>3 DEF J
<1>2. CASE RiseMatched(L.M, r) /\ I.off[<<s, r>>] < I.off[<<StormOf(L.M, r), r>>]
    <2> DEFINE cur == StormOf(L.M, r)
    <2>0. <<cur, r>> \in L.M /\ cur \in Storms /\ cur # s /\ <<cur, r>> \in E
        <3>1. <<cur, r>> \in L.M
            BY <1>2, <1>a, StormOfIn DEF TypeOK
        <3> QED
            BY <3>1, <1>c, <1>e, <1>a DEF TypeOK
    <2>1. L2.rem = rem1 /\ L2.M = (L.M \ {<<cur, r>>}) \cup {<<s, r>>}
        BY <1>2 DEF Iterate
    <2>2. ~Achievable(cur, r)
        BY <2>0, <1>a, <1>g, <1>2, RejectLemma
    <2> SUFFICES ASSUME NEW e \in E, e[2] \notin L2.rem[e[1]], e \notin L2.M PROVE ~Achievable(e[1], e[2])
        BY DEF J
    <2>3. CASE e = <<cur, r>>
        BY <2>3, <2>2
    <2>4. CASE e # <<cur, r>>
        <3>1. e # <<s, r>> /\ e \notin L.M
            BY <2>1, <2>4
        <3>2. e[2] \notin L.rem[e[1]]
            BY <2>1, <3>1, <1>d, <1>c
        <3> QED
            BY <3>1, <3>2 DEF J
    <2> QED
        BY <2>3, <2>4
<1>3. CASE RiseMatched(L.M, r) /\ ~(I.off[<<s, r>>] < I.off[<<StormOf(L.M, r), r>>])
    <2> DEFINE cur == StormOf(L.M, r)
    <2>0. <<cur, r>> \in L.M /\ cur \in Storms /\ cur # s /\ <<cur, r>> \in E
        <3>1. <<cur, r>> \in L.M
            BY <1>3, <1>a, StormOfIn DEF TypeOK
        <3> QED
            BY <3>1, <1>c, <1>e, <1>a DEF TypeOK
    <2>1. L2.rem = rem1 /\ L2.M = L.M
        BY <1>3 DEF Iterate
    <2>2. I.off[<<cur, r>>] < I.off[<<s, r>>]
        <3>1. I.off[<<cur, r>>] \in Int /\ I.off[<<s, r>>] \in Int
            BY <1>f, <1>a, <2>0
        <3>2. I.off[<<cur, r>>] # I.off[<<s, r>>]
            BY <2>0, <1>a DEF NoTies, E
        <3> QED
            BY <3>1, <3>2, <1>3
    <2>3. \A q : (<<cur, q>> \in E /\ I.dur[<<cur, q>>] < I.dur[<<cur, r>>]) => ~Achievable(cur, q)
        <3> SUFFICES ASSUME NEW q, <<cur, q>> \in E, I.dur[<<cur, q>>] < I.dur[<<cur, r>>] PROVE ~Achievable(cur, q)
            OBVIOUS
        <3>1. q \notin L.rem[cur]
            BY <2>0
        <3>2. <<cur, q>> \notin L.M
            <4>1. I.dur[<<cur, q>>] # I.dur[<<cur, r>>]
                BY <1>f, <2>0
            <4>2. <<cur, q>> # <<cur, r>>
                BY <4>1
            <4> QED
                BY <4>2, <2>0
        <3> QED
            BY <3>1, <3>2 DEF J
    <2>4. ~Achievable(s, r)
        BY <2>0, <2>2, <2>3, <1>a, RejectLemma
    <2> SUFFICES ASSUME NEW e \in E, e[2] \notin L2.rem[e[1]], e \notin L2.M PROVE ~Achievable(e[1], e[2])
        BY DEF J
    <2>5. CASE e = <<s, r>>
        BY <2>5, <2>4
    <2>6. CASE e # <<s, r>>
        <3>1. e[2] \notin L.rem[e[1]]
            BY <2>1, <2>6, <1>d, <1>c
        <3> QED
            BY <3>1, <2>1 DEF J
    <2> QED
        BY <2>5, <2>6
<1> QED
    BY <1>1, <1>2, <1>3

THEOREM OptimalAtTermination ==
    ASSUME NoTies(I), NEW L, Inv(L), J(L), LoopDone(L)
    PROVE  IsStormOptimal(L.M, I)
<1> USE DEF Inv
<1>c. \A e \in E : e = <<e[1], e[2]>> /\ e[1] \in Storms /\ e[2] \in Rises
    BY InstOK DEF E, Storms, Rises, StormsOf, RisesOf
<1>f. \A e \in E : I.dur[e] \in Int /\ I.off[e] \in Int
    BY InstOK DEF E
<1>0. L.M \subseteq E /\ L.pool = {}
    BY DEF TypeOK, LoopDone
<1>1. Stable(L.M, I)
    BY StableAtTermination
<1>2. ASSUME NEW M2 \in AllStable(I), NEW s \in StormsOf(I.E), StormMatched(M2, s)
      PROVE  /\ StormMatched(L.M, s)
             /\ I.dur[<<s, RiseOf(L.M, s)>>] <= I.dur[<<s, RiseOf(M2, s)>>]
    <2> DEFINE q == RiseOf(M2, s)
    <2>0. M2 \in SUBSET E /\ Stable(M2, I) /\ s \in Storms
        BY DEF AllStable, E, Storms
    <2>1. <<s, q>> \in M2 /\ <<s, q>> \in E /\ Achievable(s, q)
        <3>1. <<s, q>> \in M2
            BY <1>2, <2>0, RiseOfIn
        <3> QED
            BY <3>1, <2>0 DEF Achievable
    <2>2. StormMatched(L.M, s)
        <3> SUFFICES ASSUME ~StormMatched(L.M, s) PROVE FALSE
            OBVIOUS
        <3>1. \A p \in Rises : <<s, p>> \notin L.M
            BY DEF StormMatched
        <3>2. L.rem[s] = {}
            BY <3>1, <2>0, <1>0
        <3>3. <<s, q>> \notin L.M
            BY <3>1, <2>1, <1>c
        <3> QED
            BY <3>2, <3>3, <2>1 DEF J
    <2> DEFINE r0 == RiseOf(L.M, s)
    <2>3. <<s, r0>> \in L.M /\ <<s, r0>> \in E
        BY <2>2, <1>0, RiseOfIn
    <2>4. I.dur[<<s, r0>>] <= I.dur[<<s, q>>]
        <3> SUFFICES ASSUME I.dur[<<s, q>>] < I.dur[<<s, r0>>] PROVE FALSE
            BY <2>3, <2>1, <1>f
        <3>1. q \notin L.rem[s]
            BY <2>3, <2>1
        <3>2. <<s, q>> # <<s, r0>>
            BY <2>3, <2>1, <1>f
        <3>3. <<s, q>> \notin L.M
            BY <3>2, <2>3
        <3> QED
            BY <3>1, <3>3, <2>1 DEF J
    <2> QED
        BY <2>2, <2>4
<1> QED
    BY <1>1, <1>2 DEF IsStormOptimal, StormWeaklyPrefers

(* every behaviour of the loop: LoopInit, then any sequence of steps *)
COROLLARY LoopCorrect ==
    /\ Inv(LoopInit(I)) /\ J(LoopInit(I))
    /\ \A L, L2 : Inv(L) /\ Step(L, L2) => Inv(L2)
    /\ \A L : Inv(L) /\ LoopDone(L) => Stable(L.M, I)
    /\ NoTies(I) => /\ \A L, L2 : Inv(L) /\ J(L) /\ Step(L, L2) => J(L2)
                    /\ \A L : Inv(L) /\ J(L) /\ LoopDone(L) => IsStormOptimal(L.M, I)
BY InitInv, InitJ, StepInv, StableAtTermination, StepJ, OptimalAtTermination DEF Step
=============================================================================
