----------------------------- MODULE TraceSpline -----------------------------
(***************************************************************************)
(* C14 / C15 / C17 / C18, code -> specification, for ARBITRARY real        *)
(* parameter sets (not on the polynomial / log2 lattices): the harness     *)
(* records evaluations and integrals of the real objects in fixed point    *)
(* and TLC judges the relations the properties state.  Each case has a     *)
(* `kind`:                                                                 *)
(*  "sy"   knots kx / kv, evaluations at the knots (ev), below the lowest  *)
(*         and above the highest knot (below, above: <<v, v_at_end>>),     *)
(*         triples (a, m, b) with the four integrals I(a,b), I(a,m),       *)
(*         I(m,b), I(b,a), and knot-aligned Simpson panels                 *)
(*         <<h, fa, fm, fb, I>> (Simpson's rule is exact on each cubic     *)
(*         piece, so I must equal h/6 (fa + 4 fm + fb))                    *)
(*  "mono" a sequence of values that must be non-decreasing (C15 T(z) by   *)
(*         level; C17 W by level when Sy >= 0; C18 -t by level), optional  *)
(*         floor: first values equal `floor`; pairs (scalar, array) equal  *)
(*  "same" two sequences that must agree within tol (refinement / reversal *)
(*         of a grid: values at shared levels up to one common constant)   *)
(* All tolerances are carried by the case (they state the fixed-point      *)
(* rounding budget explicitly).                                            *)
(***************************************************************************)
EXTENDS Integers, Sequences, TLC, Json, IOUtils

Cases == JsonDeserialize(IOEnv.TRACE_FILE)
VARIABLES ci, ok
Fail(c, clause, w) == PrintT("FAIL " \o ToJson([id |-> c.id, stretch |-> w, clause |-> clause]))
Chk(cond, c, clause, w) == IF cond THEN TRUE ELSE Fail(c, clause, w)
Abs(x) == IF x < 0 THEN -x ELSE x
Near(x, y, t) == Abs(x - y) <= t

JudgeSy(c) ==
    /\ \A k \in 1..Len(c.kv) : Chk(Near(c.ev[k], c.kv[k], c.tolv), c, "C14 the spline does not pass through a knot", k)
    /\ \A k \in 1..Len(c.below) : Chk(Near(c.below[k], c.kv[1], c.tolv), c, "C14 not constant below the lowest knot", k)
    /\ \A k \in 1..Len(c.above) : Chk(Near(c.above[k], c.kv[Len(c.kv)], c.tolv), c, "C14 not constant above the highest knot", k)
    /\ \A k \in 1..Len(c.triples) :
         LET t == c.triples[k] IN
         /\ Chk(Near(t.iam + t.imb, t.iab, c.toli), c, "C14 integrals are not additive over adjacent ranges", k)
         /\ Chk(Near(t.iab + t.iba, 0, c.toli), c, "C14 swapping the limits does not change the sign", k)
    /\ \A k \in 1..Len(c.panels) :
         LET p == c.panels[k] IN
         Chk(Near(6 * p.i, p.h * (p.fa + 4 * p.fm + p.fb), p.tol), c,
             "C14 the integral over a knot interval is not the area under the evaluated function (Simpson)", k)

JudgeMono(c) ==
    /\ \A k \in 1..(Len(c.v) - 1) : Chk(c.v[k] <= c.v[k + 1] + c.tol, c, c.prop \o " values are not monotone in the level", k)
    /\ \A k \in 1..c.nfloor : Chk(Near(c.v[k], c.floor, c.tol), c, c.prop \o " value at or below the lowest knot is not the minimum", k)
    /\ \A k \in 1..Len(c.pairs) : Chk(c.pairs[k][1] = c.pairs[k][2], c, c.prop \o " scalar and array arguments give different values", k)
    \* segment identity (C15): between two levels of one log-linear segment of slope s, the increase of T is
    \* (K(x2) - K(x1)) / s -- recorded as <<increase of T, that quotient>> in the case's fixed point
    /\ IF "incr" \in DOMAIN c
       THEN \A k \in 1..Len(c.incr) :
              Chk(Near(c.incr[k][1], c.incr[k][2], c.tolI), c,
                  c.prop \o " the increase between two levels is not the integral of the conductivity between them", k)
       ELSE TRUE

JudgeSame(c) ==
    \A k \in 1..Len(c.u) : Chk(Near(c.u[k] - c.u[1], c.w[k] - c.w[1], c.tol), c,
                               c.prop \o " values at shared levels changed when the grid was refined or reversed", k)

Judge(c) == IF c.kind = "sy" THEN JudgeSy(c) ELSE IF c.kind = "mono" THEN JudgeMono(c) ELSE JudgeSame(c)

Init == ci = 1 /\ ok = TRUE
Next == ci <= Len(Cases) /\ ok' = Judge(Cases[ci]) /\ ci' = ci + 1
Spec == Init /\ [][Next]_<<ci, ok>>
AllConsumed == TLCGet("stats").diameter - 1 = Len(Cases) \/ Len(Cases) = 0
=============================================================================
