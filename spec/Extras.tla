------------------------------- MODULE Extras -------------------------------
(***************************************************************************)
(* Behaviour beyond the listed properties (growth of the specification).   *)
(*                                                                         *)
(* E1  PEATCLSM transmissivity for INTEGER alpha on a centimetre lattice:  *)
(*       T = Ksmacz0 * (zeta_max - zeta)^(1 - alpha) / (100 (alpha - 1))   *)
(*     with zeta = water level in cm (integer), zeta_max integer.  Exact   *)
(*     rational <<num, den>> = <<Ks, 100 (alpha - 1) d^(alpha - 1)>>,      *)
(*     d = zeta_max - zeta > 0; refused (ValueError) above zeta_max.  (The *)
(*     part of C16 a TLA+ oracle can reach; C16 itself is not claimed.)    *)
(* E2  `plot specific-yield|transmissivity --dump`: N rows, water levels   *)
(*     min + k (max - min)/(N - 1) cm, values of the function at 10 x cm.  *)
(* E3  parameter dictionaries: create_*_function consumes the "type" key   *)
(*     of the dictionary it is given (in place): a second creation from    *)
(*     the same dictionary is refused.                                     *)
(***************************************************************************)
EXTENDS Integers, Sequences, TLC

RECURSIVE Pow(_, _)
Pow(b, e) == IF e = 0 THEN 1 ELSE b * Pow(b, e - 1)

(* E1 *)
PeatT(ks, alpha, zmax, zcm) ==
    IF zcm > zmax THEN [refused |-> TRUE, num |-> 0, den |-> 1]
    ELSE [refused |-> FALSE, num |-> ks, den |-> 100 * (alpha - 1) * Pow(zmax - zcm, alpha - 1)]
(* decreasing depth below the ceiling means larger transmissivity *)
PeatMonotone(ks, alpha, zmax, z1, z2) ==
    (z1 < z2 /\ z2 < zmax) => PeatT(ks, alpha, zmax, z1).num * PeatT(ks, alpha, zmax, z2).den
                               <= PeatT(ks, alpha, zmax, z2).num * PeatT(ks, alpha, zmax, z1).den

(* E2: the k-th dumped level (k = 0..N-1) as a rational in cm *)
DumpLevel(lo, hi, N, k) == <<lo * (N - 1) + k * (hi - lo), N - 1>>

(* E3: life cycle of a parameter dictionary *)
VARIABLES dict, outcome
Init3 == dict = "typed" /\ outcome = "none"
Create ==
    \/ dict = "typed" /\ dict' = "consumed" /\ outcome' = "ok"
    \/ dict = "consumed" /\ dict' = "consumed" /\ outcome' = "refused"
Reload == dict' = "typed" /\ outcome' = "none"       \* parse the YAML text again
Next3 == Create \/ Reload
Spec3 == Init3 /\ [][Next3]_<<dict, outcome>>
SecondCreateRefused == [][(dict = "consumed" /\ dict' = "consumed") => outcome' = "refused"]_<<dict, outcome>>
=============================================================================
