------------------------------ MODULE MCCurves ------------------------------
(***************************************************************************)
(* All small collections of pieces, and -- as actions -- the arbitrary     *)
(* processing choices of C08: presenting the pieces in another order       *)
(* (Swap) and shifting one piece's own axis by a constant (Shift).  The    *)
(* result (members, relative alignment, master curve) is a function of the *)
(* collection only: action property Invariant_Result.                     *)
(***************************************************************************)
EXTENDS Curves, TLC, Json

CONSTANTS NPieces, Tops, Lens, Incs, Dir, ShiftBy, Views, Emit

DirDown == {-1}
DirUp == {1}
DirBoth == {-1, 1}
DirDownFlat == {-1, 0}
VARIABLES coll, phase, base
vars == <<coll, phase, base>>

TimesOf(incs) == [k \in 1..(Len(incs) + 1) |->
                    LET RECURSIVE acc(_)
                        acc(q) == IF q = 1 THEN 0 ELSE acc(q - 1) + incs[q - 1]
                    IN acc(k)]

Init ==
    /\ phase = "pick"
    /\ base = [judged |-> FALSE, tie |-> FALSE]
    /\ \E n \in NPieces : \E tops \in [1..n -> Tops], dirs \in [1..n -> Dir] :
         coll = [i \in 1..n |-> [id |-> i, top |-> tops[i], dir |-> dirs[i], t |-> <<0, 1>>]]

(* choose every piece (second phase so that TLC's workers share the work)  *)
Pick ==
    /\ phase = "pick"
    /\ \E ts \in [1..Len(coll) -> UNION {{TimesOf(ic) : ic \in [1..m -> Incs]} : m \in Lens}] :
            coll' = [i \in 1..Len(coll) |-> [id |-> i, top |-> coll[i].top, dir |-> coll[i].dir, t |-> ts[i]]]
    /\ phase' = "view"
    /\ base' = Result(coll')          \* the result in the first presentation

Swap ==
    /\ Views
    /\ phase = "view"
    /\ \E i \in 1..(Len(coll) - 1) :
         coll' = [k \in 1..Len(coll) |-> IF k = i THEN coll[i + 1] ELSE IF k = i + 1 THEN coll[i] ELSE coll[k]]
    /\ UNCHANGED <<phase, base>>

Shift ==
    /\ Views
    /\ phase = "view"
    /\ \E i \in 1..Len(coll) :
         /\ coll[i].t[1] = 0
         /\ coll[i].id = 1                       \* bound: only piece 1 is ever shifted
         /\ coll' = [coll EXCEPT ![i].t = [k \in 1..Len(coll[i].t) |-> coll[i].t[k] + ShiftBy]]
    /\ UNCHANGED <<phase, base>>

Next == Pick \/ Swap \/ Shift
Spec == Init /\ [][Next]_vars

Ready == phase = "view"
(* the first presentation: ids in order, no axis shifted *)
First == Ready /\ (\A i \in 1..Len(coll) : coll[i].id = i /\ coll[i].t[1] = 0)
Inv_Components == Ready => ComponentsEqualDeclarative(coll)
Inv_CodeAgrees == Ready => CodeAgreesWithDeclarative(coll)
Inv_Optimal == First => SolutionExistsAndIsOptimal(coll)
Inv_PinIndependent == First => PinIndependent(coll)
(* C08: processing choices (Swap, Shift) do not change the result.  Stated  *)
(* against the result of the first presentation, carried in `base` (as an   *)
(* action property [][Result' = Result]_vars TLC 1.8 did not terminate on  *)
(* even the smallest instance: it re-evaluates the primed operator tree in *)
(* its liveness machinery).                                                *)
Inv_ResultUnchanged == Ready => Result(coll) = base

EmitInv == (Emit /\ Ready) => PrintT("EMIT " \o ToJson([coll |-> coll, res |-> Result(coll)]))
=============================================================================
