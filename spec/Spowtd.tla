------------------------------- MODULE Spowtd -------------------------------
(***************************************************************************)
(* Top level: the dataset file and the command-line steps after `load`     *)
(* (spowtd/user_interface.py: every step is `with sqlite3.connect(db)`:    *)
(* one implicit transaction, committed on success, rolled back on an       *)
(* exception; a killed process leaves a journal that the next open rolls   *)
(* back).                                                                  *)
(*                                                                         *)
(* disk  -- the committed content, one field per table group.  A field is  *)
(*          NoVal or the arguments / inputs that determine its content:    *)
(*   cls   <<s, j>>            thresholds, flags, storms, intervals, pairs *)
(*   grid  d                   zeta_grid, discrete_zeta                    *)
(*   curv  c                   curvature                                   *)
(*   rise  [ref, cls, grid]    rising_interval(_zeta): tagged with what    *)
(*                             the step READ (classification and grid)     *)
(*   rec   [ref, cls, grid]    recession_interval(_zeta)                   *)
(* txn   -- NoTxn or the open transaction [cmd, arg, pc, work]: `work` is  *)
(*          what the disk becomes if it commits, pc counts writes done     *)
(*          (0..NW: first, middle, last).                                  *)
(* Every step can succeed at most once (singleton / primary-key rows); a   *)
(* step whose inputs are missing or whose rows exist fails (the code       *)
(* checks nothing up front: it dies on a constraint or an exception) and   *)
(* leaves the disk as it was.                                              *)
(***************************************************************************)
EXTENDS Integers, Sequences, FiniteSets, TLC

CONSTANTS ClsArgs, GridArgs, CurvArgs, Refs, NW

(* TLC cannot compare a string with a tuple or a record: absent values are  *)
(* the string "none", absent curves the record NoCurve                      *)
NoVal == "none"
NoCurve == [ref |-> "none", cls |-> "none", grid |-> "none"]

VARIABLES disk, txn, last
vars == <<disk, txn, last>>

Empty == [cls |-> NoVal, grid |-> NoVal, curv |-> NoVal, rise |-> NoCurve, rec |-> NoCurve]
NoTxn == [cmd |-> "none", arg |-> "none", pc |-> 0, work |-> Empty]

Commands ==
    {<<"classify", a>> : a \in ClsArgs} \cup {<<"set-zeta-grid", a>> : a \in GridArgs}
    \cup {<<"set-curvature", a>> : a \in CurvArgs}
    \cup {<<"rise", a>> : a \in Refs} \cup {<<"recession", a>> : a \in Refs}
ReadOnly == {<<"simulate-rise", "none">>, <<"simulate-recession", "none">>, <<"pestfiles-curves", "none">>}

(* What happens when command c is run on disk d.  The code checks nothing   *)
(* up front; it dies where it first misses something, in this order:       *)
(*   "ok"            completes                                             *)
(*   "integrity"     its rows exist already (singleton / primary key):     *)
(*                   sqlite3.IntegrityError at the first conflicting write *)
(*   "no_grid"       rise / recession before set-zeta-grid: ValueError     *)
(*                   "Discrete water level interval not yet set"           *)
(*   "no_intervals"  rise / recession before classify: ValueError          *)
(*                   "empty series list"                                   *)
(*   "no_curvature"  simulate recession before set-curvature: ValueError   *)
(*                   "Site curvature must be set to simulate recession"    *)
(*   "no_curve"      simulate without the master curve: ValueError (the    *)
(*                   empty query result cannot be unpacked)                *)
(* `pestfiles curves` always completes (it writes a file with however many *)
(* observations there are, possibly none).                                 *)
Outcome(d, c) ==
    CASE c[1] = "classify"      -> IF d.cls = NoVal THEN "ok" ELSE "integrity"
      [] c[1] = "set-zeta-grid" -> IF d.grid = NoVal THEN "ok" ELSE "integrity"
      [] c[1] = "set-curvature" -> IF d.curv = NoVal THEN "ok" ELSE "integrity"
      [] c[1] = "rise"          -> IF d.grid = NoVal THEN "no_grid"
                                   ELSE IF d.cls = NoVal THEN "no_intervals"
                                   ELSE IF d.rise # NoCurve THEN "integrity" ELSE "ok"
      [] c[1] = "recession"     -> IF d.grid = NoVal THEN "no_grid"
                                   ELSE IF d.cls = NoVal THEN "no_intervals"
                                   ELSE IF d.rec # NoCurve THEN "integrity" ELSE "ok"
      [] c[1] = "simulate-rise" -> IF d.rise = NoCurve THEN "no_curve" ELSE "ok"
      [] c[1] = "simulate-recession" -> IF d.curv = NoVal THEN "no_curvature"
                                        ELSE IF d.rec = NoCurve THEN "no_curve" ELSE "ok"
      [] c[1] = "pestfiles-curves" -> "ok"
      [] OTHER -> "unknown"

CanComplete(d, c) == Outcome(d, c) = "ok"

(* what the disk becomes when the step commits: a function of what it reads *)
Effect(d, c) ==
    CASE c[1] = "classify"      -> [d EXCEPT !.cls = c[2]]
      [] c[1] = "set-zeta-grid" -> [d EXCEPT !.grid = c[2]]
      [] c[1] = "set-curvature" -> [d EXCEPT !.curv = c[2]]
      [] c[1] = "rise"          -> [d EXCEPT !.rise = [ref |-> c[2], cls |-> d.cls, grid |-> d.grid]]
      [] c[1] = "recession"     -> [d EXCEPT !.rec = [ref |-> c[2], cls |-> d.cls, grid |-> d.grid]]

CanRead(d, c) == Outcome(d, c) = "ok"

Init == disk = Empty /\ txn = NoTxn /\ last = "loaded"

Idle == txn.cmd = "none"

(* a step that can complete: BEGIN (implicit), NW writes, COMMIT *)
Begin(c) ==
    /\ Idle /\ CanComplete(disk, c)
    /\ txn' = [cmd |-> c[1], arg |-> c[2], pc |-> 0, work |-> Effect(disk, c)]
    /\ last' = "begin"
    /\ UNCHANGED disk
Write ==
    /\ ~Idle /\ txn.pc < NW
    /\ txn' = [txn EXCEPT !.pc = @ + 1]
    /\ last' = "write"
    /\ UNCHANGED disk
Commit ==
    /\ ~Idle /\ txn.pc = NW
    /\ disk' = txn.work
    /\ txn' = NoTxn
    /\ last' = "ok"
(* an error at the next write (or after the last one, before commit):      *)
(* the exception leaves `with connection:` which rolls back                *)
Fail ==
    /\ ~Idle
    /\ txn' = NoTxn
    /\ last' = "failed"
    /\ UNCHANGED disk
(* the process dies: the journal is rolled back by the next open *)
Kill ==
    /\ ~Idle
    /\ txn' = NoTxn
    /\ last' = "killed"
    /\ UNCHANGED disk
(* a step whose inputs are missing or whose rows exist: fails, disk intact *)
Doomed(c) ==
    /\ Idle /\ ~CanComplete(disk, c)
    /\ last' = "refused"
    /\ UNCHANGED <<disk, txn>>
Read(c) ==
    /\ Idle /\ CanRead(disk, c)
    /\ last' = "read"
    /\ UNCHANGED <<disk, txn>>

(* a read-only command whose inputs are missing: fails, nothing written *)
ReadFails(c) ==
    /\ Idle /\ ~CanRead(disk, c)
    /\ last' = "refused"
    /\ UNCHANGED <<disk, txn>>

Next ==
    \/ \E c \in Commands : Begin(c) \/ Doomed(c)
    \/ \E c \in ReadOnly : Read(c) \/ ReadFails(c)
    \/ Write \/ Commit \/ Fail \/ Kill
Spec == Init /\ [][Next]_vars /\ WF_vars(Write) /\ WF_vars(Commit)

----------------------------------------------------------------------------
(* C20: all-or-nothing.  The disk changes only at Commit, and then to the   *)
(* complete result. *)
Atomic == [][disk' = disk \/ (~Idle /\ txn.pc = NW /\ disk' = txn.work)]_vars

(* never a mixture: whatever is on disk is the complete result of steps     *)
(* whose inputs are exactly the ones recorded; the derived curves were      *)
(* computed from the classification and grid that are on disk               *)
NoMixture ==
    /\ (disk.rise # NoCurve => disk.rise.cls = disk.cls /\ disk.rise.grid = disk.grid)
    /\ (disk.rec # NoCurve => disk.rec.cls = disk.cls /\ disk.rec.grid = disk.grid)

(* the step can be run again after a failed or killed attempt *)
Rerunnable ==
    \A c \in Commands :
        (Idle /\ last \in {"failed", "killed"} /\ CanComplete(disk, c)) => ENABLED Begin(c)

(* confluence: the disk is a function of the set of completed steps (their *)
(* arguments), not of their order nor of failed attempts in between        *)
Completed(d) ==
    (IF d.cls # NoVal THEN {<<"classify", d.cls>>} ELSE {})
    \cup (IF d.grid # NoVal THEN {<<"set-zeta-grid", d.grid>>} ELSE {})
    \cup (IF d.curv # NoVal THEN {<<"set-curvature", d.curv>>} ELSE {})
    \cup (IF d.rise # NoCurve THEN {<<"rise", d.rise.ref>>} ELSE {})
    \cup (IF d.rec # NoCurve THEN {<<"recession", d.rec.ref>>} ELSE {})
(* rebuild the disk from the set of completed steps alone *)
FromSet(S) ==
    LET pick(name) == IF \E x \in S : x[1] = name THEN (CHOOSE x \in S : x[1] = name)[2] ELSE NoVal
        cls == pick("classify") grid == pick("set-zeta-grid")
    IN  [cls |-> cls, grid |-> grid, curv |-> pick("set-curvature"),
         rise |-> IF ~\E x \in S : x[1] = "rise" THEN NoCurve
                  ELSE [ref |-> pick("rise"), cls |-> cls, grid |-> grid],
         rec |-> IF ~\E x \in S : x[1] = "recession" THEN NoCurve
                 ELSE [ref |-> pick("recession"), cls |-> cls, grid |-> grid]]
Confluent == disk = FromSet(Completed(disk))

(* every started step ends: committed, failed or killed *)
Ends == [](~Idle => <>Idle)
=============================================================================
