----------------------------- MODULE TraceField -----------------------------
(***************************************************************************)
(* Code -> specification on long real records (the field datasets, 2*10^4  *)
(* samples): one behaviour step per sample.  The trace file describes ONE  *)
(* gap-free stretch in fixed point (rain x K, level increments x K) with   *)
(* the flags and tables the real `classify` committed for it.  The         *)
(* specification walks the stretch, forms storms, rises, clean-dry runs    *)
(* and rain depths by the definitions of C03 / C04 in streaming form,      *)
(* checks every recorded per-sample flag on the way, and at the end judges *)
(* the recorded tables (C01: one-to-one joins of overlapping runs; C02: no *)
(* blocking pair, storm-optimal on every small tie-free component;         *)
(* C03: maximal runs and depths; C04: interstorm intervals).               *)
(*                                                                         *)
(* Comparisons whose operands differ by at most Band fixed-point units are *)
(* not decidable at this resolution: for those steps the trace carries the *)
(* exact double-precision comparison (hres / jres) and it is taken as is.  *)
(***************************************************************************)
EXTENDS Classify, TLC, Json, IOUtils

T == JsonDeserialize(IOEnv.TRACE_FILE)
m == Len(T.rain)
Band == T.band

VARIABLES p, wetSeen, dirty, sStart, rStart, iStart, dAcc, storms, rises, inters, depths
vars == <<p, wetSeen, dirty, sStart, rStart, iStart, dAcc, storms, rises, inters, depths>>

Near(x, y) == (x - y <= Band) /\ (y - x <= Band)
HeavyAt(k) == IF Near(T.rain[k], T.S) THEN T.hres[k] ELSE T.rain[k] > T.S
WetAt(k)   == IF Near(T.rain[k], 0) THEN T.wres[k] ELSE T.rain[k] > 0
JumpOver(k) == IF Near(T.inc[k], T.J) THEN T.jres[k] ELSE T.inc[k] > T.J   \* step k, k < m

Fail(clause, where) == PrintT("FAIL " \o ToJson([id |-> T.id, stretch |-> where, clause |-> clause]))
Chk(cond, clause, where) == IF cond THEN TRUE ELSE Fail(clause, where)

Init ==
    /\ p = 1 /\ wetSeen = FALSE /\ dirty = FALSE
    /\ sStart = 0 /\ rStart = 0 /\ iStart = 0 /\ dAcc = 0
    /\ storms = {} /\ rises = {} /\ inters = {} /\ depths = {}

(* consume sample p (and the step that starts at it) *)
Sample ==
    /\ p <= m
    /\ LET wet   == WetAt(p)
           heavy == HeavyAt(p)
           jumpIn == p > 1 /\ JumpOver(p - 1)          \* increment ENDING at p
           jumpOut == p < m /\ JumpOver(p)             \* increment over the step starting at p
           dirty1 == IF wet THEN FALSE ELSE (dirty \/ jumpIn)
           clean == ~wet /\ wetSeen /\ ~dirty1
           myst  == ~wet /\ ~clean
       IN
       /\ Chk(<<T.flags[p][1], T.flags[p][2], T.flags[p][3]>> = <<jumpIn, myst, clean>>,
              "C04 flags differ from the definitions", p)
       /\ wetSeen' = (wetSeen \/ wet)
       /\ dirty' = dirty1
       \* storms: maximal runs of heavy steps, with their depth
       /\ IF heavy
          THEN /\ sStart' = (IF sStart = 0 THEN p ELSE sStart)
               /\ dAcc' = (IF sStart = 0 THEN 0 ELSE dAcc) + T.rain[p]
               /\ UNCHANGED <<storms, depths>>
          ELSE /\ sStart' = 0
               /\ dAcc' = 0
               /\ storms' = (IF sStart = 0 THEN storms ELSE storms \cup {<<sStart, p - 1>>})
               /\ depths' = (IF sStart = 0 THEN depths ELSE depths \cup {<<sStart, dAcc>>})
       \* rises: maximal runs of fast increments (steps 1..m-1)
       /\ IF jumpOut
          THEN rStart' = (IF rStart = 0 THEN p ELSE rStart) /\ UNCHANGED rises
          ELSE /\ rStart' = 0
               /\ rises' = (IF rStart = 0 THEN rises ELSE rises \cup {<<rStart, p - 1>>})
       \* clean-dry runs of samples
       /\ IF clean
          THEN iStart' = (IF iStart = 0 THEN p ELSE iStart) /\ UNCHANGED inters
          ELSE /\ iStart' = 0
               /\ inters' = (IF iStart = 0 \/ iStart = p - 1 THEN inters ELSE inters \cup {<<iStart, p - 1>>})
    /\ p' = p + 1

Rows(x) == {<<x[k][1], x[k][2]>> : k \in 1..Len(x)}

RECURSIVE Grow(_, _)
Grow(E, C) ==
    LET C2 == {e \in E : \E c \in C : c[1] = e[1] \/ c[2] = e[2]}
    IN  IF C2 = C THEN C ELSE Grow(E, C2)

Restrict(inst, C) == [E |-> C, dur |-> [e \in C |-> inst.dur[e]], off |-> [e \in C |-> inst.off[e]]]

(* all runs are closed: judge the tables the code committed *)
Finish ==
    /\ p = m + 1
    /\ LET allStorms == IF sStart = 0 THEN storms ELSE storms \cup {<<sStart, m>>}
           allDepths == IF sStart = 0 THEN depths ELSE depths \cup {<<sStart, dAcc>>}
           allRises  == IF rStart = 0 THEN rises ELSE rises \cup {<<rStart, m - 1>>}
           allInters == IF iStart = 0 \/ iStart = m THEN inters ELSE inters \cup {<<iStart, m>>}
           E == {sr \in allStorms \X allRises : Overlap(sr[1], sr[2])}
           inst == [E |-> E,
                    dur |-> [e \in E |-> AbsV(RunLen(e[1]) - RunLen(e[2]))],
                    off |-> [e \in E |-> AbsV(e[2][1] - e[1][1])]]
           pairRows == Rows(T.pair)
           M == {sr \in E : <<sr[2][1], sr[1][1]>> \in pairRows}
           contended == {e \in E : \E f \in E : f # e /\ (f[1] = e[1] \/ f[2] = e[2])}
           depthOf == [d \in allDepths |-> d[2]]
       IN
       /\ Chk(Rows(T.inter) = allInters, "C04 interstorm intervals differ from the definition", 0)
       /\ Chk(Rows(T.storm) \subseteq {StormRow(s) : s \in allStorms},
              "C03 a recorded storm is not a maximal run of heavy steps", 0)
       /\ Chk(Rows(T.rise) \subseteq {RiseRow(r) : r \in allRises},
              "C03 a recorded rise is not a maximal run of fast increments", 0)
       /\ Chk(/\ Cardinality(M) = Cardinality(pairRows)
              /\ Cardinality(pairRows) = Len(T.pair)
              /\ Rows(T.storm) = {StormRow(e[1]) : e \in M}
              /\ Rows(T.rise) = {RiseRow(e[2]) : e \in M},
              "C01 pair rows do not join recorded storms with recorded overlapping rises one to one", 0)
       /\ Chk(IsMatching(M, E), "C01 recorded pairs are not one-to-one", 0)
       /\ Chk(IsMatching(M, E) => NoBlockingPair(M, inst), "C02 blocking pair", 0)
       /\ Chk(IsMatching(M, E) =>
                \A e \in contended :
                   LET C == Grow(E, {e}) IN
                   (Cardinality(C) <= 12 /\ NoTies(Restrict(inst, C)))
                      => IsStormOptimal(M \cap C, Restrict(inst, C)),
              "C02 not the storm-optimal stable matching", 0)
       /\ Chk(\A d \in Rows(T.depth) :
                 \E x \in allDepths :
                    /\ x[1] = d[1]
                    /\ x[2] - d[2] <= T.depthTol
                    /\ d[2] - x[2] <= T.depthTol,
              "C03 storm depth is not the sum over the storm's own steps", 0)
       /\ Chk({d[1] : d \in Rows(T.depth)} = {e[1][1] : e \in M}, "C03 depth rows do not belong to the recorded storms", 0)
    /\ p' = m + 2
    /\ UNCHANGED <<wetSeen, dirty, sStart, rStart, iStart, dAcc, storms, rises, inters, depths>>

Next == Sample \/ Finish
Spec == Init /\ [][Next]_vars
AllConsumed == TLCGet("stats").diameter = m + 2
=============================================================================
