-------------------------------- MODULE Hydro --------------------------------
(***************************************************************************)
(* A planted-truth generator (C06, C07, C13): a water table that moves on  *)
(* ONE master recession lattice and ONE constant-specific-yield storage    *)
(* line.                                                                   *)
(*                                                                         *)
(* Truth.  ZStar = <<z_0 > z_1 > ... > z_K>> (integers, mm): the level k   *)
(* dry time steps below the top.  The recession curve is piecewise linear  *)
(* through these points (one time step apart).  Specific yield is the      *)
(* constant 1 / SyDen: a storm that lifts the level by dz mm brings        *)
(* dz / SyDen mm of rain.                                                  *)
(*                                                                         *)
(* A record is built by events, one or more time steps each:               *)
(*   Recede(m)     m dry steps down the lattice                            *)
(*   Storm(k2, d)  d steps of heavy rain, the level rising linearly from   *)
(*                 lattice point k to lattice point k2 < k                 *)
(*   Drizzle       one step of light rain (not a storm) during which the   *)
(*                 level stays put.  It matters: the classifier discards   *)
(*                 a dry spell whose first sample ends a fast increment    *)
(*                 ("mystery jump"), so a recession directly after a storm *)
(*                 is recorded only if a drizzle step intervenes.          *)
(*   Gap(g)        the level record is interrupted for g samples while the *)
(*                 water table recedes g + 1 steps                         *)
(* Units: rain per step in 1/SyDen mm (so a storm step carries dz/d units);*)
(* levels in mm.  Thresholds: S = 1 unit (drizzle = 1 unit is not a storm, *)
(* storm steps carry >= 2), J = 1 mm per step.                             *)
(***************************************************************************)
EXTENDS Integers, Sequences, FiniteSets, Classify

CONSTANTS ZStar, SyDen

K == Len(ZStar) - 1
Z(k) == ZStar[k + 1]                 \* lattice point k = 0..K
S == 1
J == 1

(* state of the generator *)
\* k: lattice position of the last sample; stretches: finished gap-free stretches;
\* rain / inc: the current stretch (rain[i] on the step starting at sample i);
\* ev: the events so far, with the 1-based sample index (in the current stretch)
\*     at which each begins and the stretch number
GenInit(k0) == [k |-> k0, done |-> <<>>, rain |-> <<>>, inc |-> <<>>, ev |-> <<>>, top |-> k0]

Rep(n, v) == [i \in 1..n |-> v]
Pos(g) == Len(g.rain) + 1            \* sample index at which the next event starts
Str(g) == Len(g.done) + 1            \* number of the current stretch

CanRecede(g, m) == m >= 1 /\ g.k + m <= K
Recede(g, m) ==
    [g EXCEPT !.k = g.k + m,
              !.rain = g.rain \o Rep(m, 0),
              !.inc = g.inc \o [i \in 1..m |-> Z(g.k + i) - Z(g.k + i - 1)],
              !.ev = Append(g.ev, [type |-> "recede", at |-> Pos(g), str |-> Str(g), n |-> m, k |-> g.k])]

CanStorm(g, k2, d) ==
    /\ k2 < g.k /\ k2 >= 0 /\ d >= 1
    /\ (Z(k2) - Z(g.k)) % d = 0
    /\ (Z(k2) - Z(g.k)) \div d >= 2
    /\ (IF g.ev = <<>> THEN TRUE ELSE g.ev[Len(g.ev)].type # "storm")   \* two storms are separated
       \* (IF, not \/: in an action TLC explores both disjuncts)
Storm(g, k2, d) ==
    LET per == (Z(k2) - Z(g.k)) \div d IN
    [g EXCEPT !.k = k2,
              !.rain = g.rain \o Rep(d, per),
              !.inc = g.inc \o Rep(d, per),
              !.ev = Append(g.ev, [type |-> "storm", at |-> Pos(g), str |-> Str(g), n |-> d, k |-> g.k, k2 |-> k2])]

CanDrizzle(g) == g.ev # <<>> /\ g.ev[Len(g.ev)].type \in {"storm", "recede"}
Drizzle(g) ==
    [g EXCEPT !.rain = Append(g.rain, 1),
              !.inc = Append(g.inc, 0),
              !.ev = Append(g.ev, [type |-> "drizzle", at |-> Pos(g), str |-> Str(g), n |-> 1, k |-> g.k])]

(* close the current stretch at its last sample (a final dry step whose    *)
(* end level is unknown), skip g samples, resume g + 1 steps further down  *)
CanGap(g, n) == n >= 1 /\ g.k + n + 1 <= K /\ Len(g.rain) >= 1 /\ g.ev[Len(g.ev)].type # "gap"
Gap(g, n) ==
    [g EXCEPT !.k = g.k + n + 1,
              !.done = Append(g.done, [rain |-> Append(g.rain, 0), inc |-> g.inc]),
              !.rain = <<>>, !.inc = <<>>,
              !.ev = Append(g.ev, [type |-> "gap", at |-> Pos(g), str |-> Str(g), n |-> n, k |-> g.k])]

(* the finished record: all stretches, the last one closed by a dry step *)
Record(g) == Append(g.done, [rain |-> Append(g.rain, 0), inc |-> g.inc])

(***************************************************************************)
(* What was planted.  Per stretch, in sample indices of that stretch.      *)
(***************************************************************************)
EvOf(g, str, type) == {i \in 1..Len(g.ev) : g.ev[i].str = str /\ g.ev[i].type = type}

PlantedStorms(g, str) == {<<g.ev[i].at, g.ev[i].at + g.ev[i].n>> : i \in EvOf(g, str, "storm")}
PlantedDepth(g, str) ==      \* <<storm start, depth in rain units>> : depth = lift in mm
    {<<g.ev[i].at, Z(g.ev[i].k2) - Z(g.ev[i].k)>> : i \in EvOf(g, str, "storm")}

(* maximal groups of consecutive recede events in one stretch *)
IsRecede(g, i) == i >= 1 /\ i <= Len(g.ev) /\ g.ev[i].type = "recede"
SameStr(g, i, j) == g.ev[i].str = g.ev[j].str
DryRunStarts(g, str) ==
    {i \in EvOf(g, str, "recede") : ~(IsRecede(g, i - 1) /\ SameStr(g, i, i - 1))}
RECURSIVE RunEnd(_, _)
RunEnd(g, i) == IF IsRecede(g, i + 1) /\ SameStr(g, i, i + 1) THEN RunEnd(g, i + 1) ELSE i
(* a dry run is recorded as a recession iff a drizzle step precedes it in   *)
(* the same stretch; it covers the samples whose step is dry: first sample *)
(* of the run .. last sample before the next event (the closing dry step   *)
(* of a stretch extends it by one sample)                                  *)
LastOfStretch(g, i) == i = Len(g.ev) \/ g.ev[i + 1].str # g.ev[i].str \/ g.ev[i + 1].type = "gap"
PlantedRecessions(g, str) ==
    {<<g.ev[i].at,
       LET e == RunEnd(g, i)
           lastDry == g.ev[e].at + g.ev[e].n - 1
       IN  IF LastOfStretch(g, e) THEN lastDry + 1 ELSE lastDry>> :
       i \in {q \in DryRunStarts(g, str) :
                 q > 1 /\ g.ev[q - 1].type = "drizzle" /\ SameStr(g, q, q - 1)}}
PlantedRecessionsLong(g, str) == {az \in PlantedRecessions(g, str) : az[2] > az[1]}

(* the classifier's definitions applied to the generated record recover    *)
(* exactly what was planted (ties Hydro to Classify inside the model)      *)
ClassifiedEqualsPlanted(g) ==
    \A str \in 1..Len(Record(g)) :
        LET st == Record(g)[str]
            storms == Storms(st, S)
            rises == Rises(st, J)
        IN  /\ {StormRow(s) : s \in storms} = PlantedStorms(g, str)
            /\ {RiseRow(r) : r \in rises} = PlantedStorms(g, str)      \* same span, on samples
            /\ Cand(st, S, J) = {sr \in storms \X rises : sr[1] = sr[2]}   \* each storm overlaps only its own rise
            /\ {<<s[1], Depth(st, s)>> : s \in storms} = PlantedDepth(g, str)
            /\ Interstorms(st, J) = PlantedRecessionsLong(g, str)

(***************************************************************************)
(* The truth curves, exactly.  Levels are given in half millimetres (h2).  *)
(***************************************************************************)
(* time (in steps, as <<num, den>>) at which the master recession passes    *)
(* level h2/2, measured from the top lattice point                         *)
TStar(h2) ==
    LET a == CHOOSE q \in 0..(K - 1) : 2 * Z(q) >= h2 /\ h2 >= 2 * Z(q + 1)
    IN  <<2 * a * (Z(a) - Z(a + 1)) + (2 * Z(a) - h2), 2 * (Z(a) - Z(a + 1))>>
TStarTable == {<<h2, TStar(h2)[1], TStar(h2)[2]>> : h2 \in (2 * Z(K))..(2 * Z(0))}

(* grid levels n (multiples of the grid step, step = d2 half-mm) that a     *)
(* piece between levels lo < hi (mm) reports: lo <= n*step < hi            *)
GridLevels(lo, hi, d2) == {n \in ((2 * lo) \div d2 - 1)..((2 * hi) \div d2 + 1) : 2 * lo <= n * d2 /\ n * d2 < 2 * hi}

LevelAt(g, str, i) ==      \* level (mm) of sample i of stretch str, from the lattice
    LET st == Record(g)[str]
        first == IF str = 1 THEN Z(g.top)
                 ELSE Z(g.ev[CHOOSE q \in 1..Len(g.ev) : g.ev[q].type = "gap" /\ g.ev[q].str = str - 1].k
                        + g.ev[CHOOSE q \in 1..Len(g.ev) : g.ev[q].type = "gap" /\ g.ev[q].str = str - 1].n + 1)
        RECURSIVE acc(_)
        acc(q) == IF q = 1 THEN first ELSE acc(q - 1) + st.inc[q - 1]
    IN  acc(i)

RecessionPieces(g) ==    \* <<stretch, first sample, last sample, hi level, lo level>>
    UNION {{<<str, az[1], az[2], LevelAt(g, str, az[1]), LevelAt(g, str, az[2])>> :
              az \in PlantedRecessionsLong(g, str)} : str \in 1..Len(Record(g))}
RisePieces(g) ==         \* <<stretch, first sample, last sample, lo level, hi level>>
    UNION {{<<str, az[1], az[2], LevelAt(g, str, az[1]), LevelAt(g, str, az[2])>> :
              az \in PlantedStorms(g, str)} : str \in 1..Len(Record(g))}

(* Pieces hang together through shared grid levels.  The commands place the  *)
(* overlap component with the most grid levels (Curves.tla); they have      *)
(* something to align iff that component has >= 2 pieces.  Judged only when *)
(* EVERY richest component has >= 2 pieces (a tie with a lone piece is      *)
(* ambiguous).  Whatever component is placed, all its pieces lie on the     *)
(* truth, so the master curve is the truth up to its origin.                *)
RECURSIVE Grow(_, _)
Grow(sets, C) ==
    LET C2 == C \cup {x \in sets : \E y \in C : x[2] \cap y[2] # {}}
    IN  IF C2 = C THEN C ELSE Grow(sets, C2)
CompLevels(C) == UNION {x[2] : x \in C}
Assemblable(levelSets) ==      \* levelSets: set of <<piece, set of grid levels>>
    LET live == {x \in levelSets : x[2] # {}}
        comps == {Grow(live, {x}) : x \in live}
        richest == {C \in comps : \A C2 \in comps : Cardinality(CompLevels(C2)) <= Cardinality(CompLevels(C))}
    IN  /\ live # {}
        /\ \A C \in richest : Cardinality(C) >= 2
RecAssemblable(g, d2) == Assemblable({<<p, GridLevels(p[5], p[4], d2)>> : p \in RecessionPieces(g)})
RiseAssemblable(g, d2) == Assemblable({<<p, GridLevels(p[4], p[5], d2)>> : p \in RisePieces(g)})
=============================================================================
