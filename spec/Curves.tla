------------------------------- MODULE Curves -------------------------------
(***************************************************************************)
(* Assembly of a master curve from pieces (spowtd/fit_offsets.py):         *)
(* get_series_time_offsets, build_head_mapping, get_connected_components,  *)
(* split_mapping_by_keys, find_offsets.                                    *)
(*                                                                         *)
(* A piece ("series") is  [id, top, dir, t]:  samples k = 1..Len(t) taken *)
(* at abscissa t[k] (strictly increasing integers: seconds, or depth) at   *)
(* grid level top + dir*(k-1), dir = -1 for a recession piece (falling one *)
(* [dir = 0: a piece whose level does not move; it crosses no grid level]   *)
(* grid level per sample), +1 for a rising piece.  `id` names the piece    *)
(* (the code never sees it).  Samples lie exactly on grid levels, so by    *)
(* the half-open crossing rule of Regrid.tla a falling piece reports the   *)
(* levels of samples 2..m+1 and a rising piece those of samples 1..m, at   *)
(* the sample abscissae, re-based to the piece's first sample.             *)
(*                                                                         *)
(* Part 1: declarative (C05: least squares via stationarity; C08: main     *)
(* body = the overlap component with most levels, independence of order    *)
(* and of per-piece axis shifts).  Part 2: the code's pipeline.            *)
(***************************************************************************)
EXTENDS Integers, Sequences, FiniteSets, FiniteSetsExt

L == 12      \* common multiple of the possible numbers of pieces at a level (1..4)

NSamples(s) == Len(s.t)
Crossings(s) ==       \* set of <<level, re-based abscissa>>
    IF s.dir = -1
    THEN {<<s.top - j, s.t[j + 1] - s.t[1]>> : j \in 1..(NSamples(s) - 1)}
    ELSE IF s.dir = 1
    THEN {<<s.top + j - 1, s.t[j] - s.t[1]>> : j \in 1..(NSamples(s) - 1)}
    ELSE {}          \* dir = 0: the level does not move; no grid level is crossed
LevelsOf(s) == {c[1] : c \in Crossings(s)}
TimeAt(s, h) == (CHOOSE c \in Crossings(s) : c[1] = h)[2]

Idx(coll) == 1..Len(coll)
AllLevels(coll) == UNION {LevelsOf(coll[i]) : i \in Idx(coll)}
At(coll, h) == {i \in Idx(coll) : h \in LevelsOf(coll[i])}       \* pieces reporting level h

(* overlap graph: two pieces are adjacent iff they share a level *)
Adjacent(coll, i, j) == LevelsOf(coll[i]) \cap LevelsOf(coll[j]) # {}
RECURSIVE Reach(_, _)
Reach(coll, C) ==
    LET C2 == C \cup {j \in Idx(coll) : \E i \in C : Adjacent(coll, i, j)}
    IN  IF C2 = C THEN C ELSE Reach(coll, C2)
Components(coll) == {Reach(coll, {i}) : i \in Idx(coll)}
HeadsOf(coll, C) == UNION {LevelsOf(coll[i]) : i \in C}

(* C08: the main body is the component with the most levels.  Judged only  *)
(* when that component is unique and has something to align (>= 2 pieces). *)
MainBodies(coll) ==
    {C \in Components(coll) :
        \A C2 \in Components(coll) : Cardinality(HeadsOf(coll, C2)) <= Cardinality(HeadsOf(coll, C))}
Judged(coll) ==
    /\ Cardinality(MainBodies(coll)) = 1
    /\ \A C \in MainBodies(coll) : Cardinality(C) >= 2
Main(coll) == CHOOSE C \in MainBodies(coll) : TRUE
KeptIn(coll, M) == {h \in HeadsOf(coll, M) : Cardinality(At(coll, h) \cap M) >= 2}
Kept(coll) == KeptIn(coll, Main(coll))
(* below, M and K are the main body and its kept levels, computed once by the caller *)
AtM(coll, M, h) == At(coll, h) \cap M

(***************************************************************************)
(* C05: offsets x (a function Main -> rationals X[i] / den) are optimal    *)
(* iff for every piece the residuals against the level means sum to zero.  *)
(* Integer form, multiplied by L * den:                                    *)
(*   sum over kept h containing i of                                       *)
(*     L*(X_i + den*t_hi) - (L/n_h) * sum_{j at h} (X_j + den*t_hj)  =  0  *)
(***************************************************************************)
SumOver(S, f(_)) == MapThenSumSet(f, S)       \* sum of f(x) over x in S (FiniteSetsExt)

ResidualSum(coll, M, K, X, den, i) ==
    SumOver({h \in K : i \in AtM(coll, M, h)},
            LAMBDA h :
              LET at == AtM(coll, M, h) nh == Cardinality(at) IN
              L * (X[i] + den * TimeAt(coll[i], h))
                - (L \div nh) * SumOver(at, LAMBDA j : X[j] + den * TimeAt(coll[j], h)))

Stationary(coll, M, K, X, den) == \A i \in M : ResidualSum(coll, M, K, X, den, i) = 0

(***************************************************************************)
(* Exact solution with piece `pin` held at 0: normal equations (scaled by  *)
(* L) for the other pieces, solved by Cramer's rule.                       *)
(***************************************************************************)
RECURSIVE AscSeq(_)
MinS(X) == CHOOSE x \in X : \A y \in X : x <= y
MaxS(X) == CHOOSE x \in X : \A y \in X : y <= x
AscSeq(X) == IF X = {} THEN <<>> ELSE <<MinS(X)>> \o AscSeq(X \ {MinS(X)})

Coef(coll, M, K, i, j) ==      \* coefficient of x_j in piece i's equation, times L
    SumOver({h \in K : i \in AtM(coll, M, h) /\ j \in AtM(coll, M, h)},
            LAMBDA h : (IF i = j THEN L ELSE 0) - (L \div Cardinality(AtM(coll, M, h))))
Rhs(coll, M, K, i) ==          \* minus the constant term of piece i's equation, times L
    -SumOver({h \in K : i \in AtM(coll, M, h)},
             LAMBDA h :
               LET at == AtM(coll, M, h) IN
               L * TimeAt(coll[i], h)
                 - (L \div Cardinality(at)) * SumOver(at, LAMBDA j : TimeAt(coll[j], h)))

RECURSIVE Det(_)
Minor(A, col) == [r \in 1..(Len(A) - 1) |->
                    [c \in 1..(Len(A) - 1) |-> A[r + 1][IF c < col THEN c ELSE c + 1]]]
Det(A) ==
    IF Len(A) = 0 THEN 1
    ELSE IF Len(A) = 1 THEN A[1][1]
    ELSE SumOver(1..Len(A), LAMBDA c : (IF c % 2 = 1 THEN 1 ELSE -1) * A[1][c] * Det(Minor(A, c)))

Solve(coll, M, K, pin) ==
    LET U == AscSeq(M \ {pin})
        k == Len(U)
        A == [r \in 1..k |-> [c \in 1..k |-> Coef(coll, M, K, U[r], U[c])]]
        b == [r \in 1..k |-> Rhs(coll, M, K, U[r])]
        d == Det(A)
        num(q) == Det([r \in 1..k |-> [c \in 1..k |-> IF c = q THEN b[r] ELSE A[r][c]]])
        X == [i \in M |-> IF i = pin THEN 0 ELSE num(CHOOSE q \in 1..k : U[q] = i)]
    IN  [X |-> X, den |-> d]

(* sign-normalised so that den > 0 *)
Normal(sol) == IF sol.den < 0 THEN [X |-> [i \in DOMAIN sol.X |-> -sol.X[i]], den |-> -sol.den] ELSE sol

(* relative alignment: offsets minus the offset of the piece with the      *)
(* smallest id in the main body -- independent of which piece is pinned    *)
Anchor(coll, M) == CHOOSE i \in M : \A j \in M : coll[i].id <= coll[j].id
Relative(coll, M, sol) ==
    LET s == Normal(sol) a == Anchor(coll, M)
    IN  {<<coll[i].id, s.X[i] - s.X[a], s.den>> : i \in M}

(* master curve relative to the anchor piece: level -> mean of shifted     *)
(* crossings, as <<level, numerator, denominator>> with denominator        *)
(* den * n_h                                                               *)
Master(coll, M, K, sol) ==
    LET s == Normal(sol) a == Anchor(coll, M)
    IN  {<<h, SumOver(AtM(coll, M, h), LAMBDA j : (s.X[j] - s.X[a]) + s.den * TimeAt(coll[j], h)),
            s.den * Cardinality(AtM(coll, M, h))>> : h \in K}

(***************************************************************************)
(* Part 2: the code's pipeline on the PRESENTED sequence of pieces.        *)
(***************************************************************************)
(* sorted by first level, ascending, ties in presented order (stable sort) *)
FirstLevel(s) == s.top
SortedIdx(coll) ==
    LET n == Len(coll)
        before(i, j) == FirstLevel(coll[i]) < FirstLevel(coll[j])
                        \/ (FirstLevel(coll[i]) = FirstLevel(coll[j]) /\ i < j)
        rank(i) == Cardinality({j \in 1..n : before(j, i)}) + 1
    IN  [r \in 1..n |-> CHOOSE i \in 1..n : rank(i) = r]

(* order in which head ids enter the dict: pieces in sorted order, each in *)
(* travel order                                                            *)
LevelSeq(s) == IF s.dir = 0 THEN <<>>
               ELSE [j \in 1..(NSamples(s) - 1) |-> IF s.dir = -1 THEN s.top - j ELSE s.top + j - 1]
RECURSIVE Dedup(_, _)
Dedup(seq, seen) ==
    IF seq = <<>> THEN <<>>
    ELSE IF Head(seq) \in seen THEN Dedup(Tail(seq), seen)
    ELSE <<Head(seq)>> \o Dedup(Tail(seq), seen \cup {Head(seq)})
RECURSIVE ConcatAll(_, _, _)
ConcatAll(coll, order, r) ==
    IF r > Len(order) THEN <<>> ELSE LevelSeq(coll[order[r]]) \o ConcatAll(coll, order, r + 1)
HeadOrder(coll) == Dedup(ConcatAll(coll, SortedIdx(coll), 1), {})

(* get_connected_components: fold over heads; groups = sequence of         *)
(* [keys |-> seq of heads, members |-> set of pieces] (dict insertion      *)
(* order: surviving groups keep their place, the merged group goes last)   *)
RECURSIVE FoldGroups(_, _, _)
FoldGroups(coll, heads, groups) ==
    IF heads = <<>> THEN groups
    ELSE LET h == Head(heads)
             at == At(coll, h)
             hit == {g \in 1..Len(groups) : groups[g].members \cap at # {}}
             RECURSIVE KeysOf(_)
             KeysOf(g) == IF g > Len(groups) THEN <<>>
                          ELSE (IF g \in hit THEN groups[g].keys ELSE <<>>) \o KeysOf(g + 1)
             RECURSIVE Rest(_)
             Rest(g) == IF g > Len(groups) THEN <<>>
                        ELSE (IF g \in hit THEN <<>> ELSE <<groups[g]>>) \o Rest(g + 1)
             merged == [keys |-> <<h>> \o KeysOf(1),
                        members |-> at \cup UNION {groups[g].members : g \in hit}]
         IN  FoldGroups(coll, Tail(heads), Rest(1) \o <<merged>>)

CodeGroups(coll) == FoldGroups(coll, HeadOrder(coll), <<>>)
(* sorted by number of heads, descending, stable: the first longest group *)
CodeMainGroup(coll) ==
    LET gs == CodeGroups(coll)
        best == CHOOSE g \in 1..Len(gs) :
                  /\ \A q \in 1..Len(gs) : Len(gs[q].keys) <= Len(gs[g].keys)
                  /\ \A q \in 1..(g - 1) : Len(gs[q].keys) < Len(gs[g].keys)
    IN  gs[best]
CodeMainHeads(coll) == {CodeMainGroup(coll).keys[k] : k \in 1..Len(CodeMainGroup(coll).keys)}
CodeKept(coll) == {h \in CodeMainHeads(coll) : Cardinality(At(coll, h)) >= 2}
CodeMembers(coll) == UNION {At(coll, h) : h \in CodeKept(coll)}
(* the reference piece: highest id in sorted order among the members *)
CodePin(coll) ==
    LET order == SortedIdx(coll)
        r == MaxS({q \in 1..Len(order) : order[q] \in CodeMembers(coll)})
    IN  order[r]

(* (a piece that crosses no level is in no group of the code: it is left out) *)
ComponentsEqualDeclarative(coll) ==
    {g.members : g \in {CodeGroups(coll)[q] : q \in 1..Len(CodeGroups(coll))}}
        = {C \in Components(coll) : HeadsOf(coll, C) # {}}

CodeAgreesWithDeclarative(coll) ==
    Judged(coll) =>
      /\ CodeMainGroup(coll).members = Main(coll)
      /\ CodeKept(coll) = Kept(coll)
      /\ CodeMembers(coll) = Main(coll)          \* AllOfMainBodyPlaced, OnlyMainBodyPlaced

(* C05 at the design level: the normal equations have a unique solution    *)
(* (Det # 0) and it is stationary; any pin gives the same relative offsets *)
SolutionExistsAndIsOptimal(coll) ==
    Judged(coll) =>
      LET M == Main(coll) K == KeptIn(coll, M) sol == Solve(coll, M, K, CodePin(coll)) IN
      /\ sol.den # 0
      /\ Stationary(coll, M, K, sol.X, sol.den)
PinIndependent(coll) ==
    Judged(coll) =>
      LET M == Main(coll) K == KeptIn(coll, M)
          b == Relative(coll, M, Solve(coll, M, K, CodePin(coll)))
      IN  \A p \in M :
            LET a == Relative(coll, M, Solve(coll, M, K, p))
            IN  \A u \in a : \E v \in b : u[1] = v[1] /\ u[2] * v[3] = v[2] * u[3]

(* several level-richest components, each with something to align: WHICH one is "the main body" is not
   determined by the property, but the result must still not depend on the presentation *)
Tie(coll) == Cardinality(MainBodies(coll)) > 1 /\ \A C \in MainBodies(coll) : Cardinality(C) >= 2
Result(coll) ==
    IF ~Judged(coll) THEN [judged |-> FALSE, tie |-> Tie(coll)]
    ELSE LET M == Main(coll) K == KeptIn(coll, M) sol == Solve(coll, M, K, CodePin(coll)) IN
         [judged |-> TRUE,
          members |-> {coll[i].id : i \in M},
          relative |-> Relative(coll, M, sol),
          master |-> Master(coll, M, K, sol),
          mapping |-> {<<hi[1], coll[hi[2]].id, TimeAt(coll[hi[2]], hi[1])>> :
                         hi \in {x \in K \X M : x[1] \in LevelsOf(coll[x[2]])}}]
=============================================================================
