----------------------------- MODULE MCTimeZone -----------------------------
(***************************************************************************)
(* Soundness of the C11 oracle itself, on abstract zones: every zone with  *)
(* up to NT transitions on the timeline 0..TMax whose offset changes by at *)
(* most MaxJump and whose transitions are further apart than any jump.     *)
(* For every local time: zero valid instants only inside a forward jump,   *)
(* two only inside a backward jump, never more, and every valid instant    *)
(* renders to the local time.                                              *)
(***************************************************************************)
EXTENDS TimeZone, TLC

CONSTANTS TMax, NT, MaxJump

VARIABLES z, local
vars == <<z, local>>

Jumps == (-MaxJump..MaxJump) \ {0}

Zones(n) ==
    {zz \in [init : {0}, tr : [1..n -> (1..TMax) \X (-(n * MaxJump)..(n * MaxJump))]] :
        /\ \A k \in 1..(n - 1) : zz.tr[k + 1][1] - zz.tr[k][1] > 2 * MaxJump
        /\ \A k \in 1..n : (zz.tr[k][2] - (IF k = 1 THEN 0 ELSE zz.tr[k - 1][2])) \in Jumps}

Init == \E n \in 0..NT : z \in Zones(n) /\ local \in (-MaxJump * NT)..(TMax + MaxJump * NT + 5)
Next == UNCHANGED vars
Spec == Init /\ [][Next]_vars

(* local times skipped by a forward jump at transition k: [t + old, t + new) *)
InForwardJump ==
    \E k \in 1..Len(z.tr) :
        LET old == OffsetOfEra(z, k - 1) new == z.tr[k][2] t == z.tr[k][1]
        IN  new > old /\ t + old <= local /\ local < t + new
InBackwardJump ==
    \E k \in 1..Len(z.tr) :
        LET old == OffsetOfEra(z, k - 1) new == z.tr[k][2] t == z.tr[k][1]
        IN  new < old /\ t + new <= local /\ local < t + old

AtMostTwo == Cardinality(ValidInstants(z, local)) <= 2
NoneOnlyInGap == (ValidInstants(z, local) = {}) <=> InForwardJump
TwoOnlyInFold == (Cardinality(ValidInstants(z, local)) = 2) <=> InBackwardJump
AllRenderBack == \A e \in ValidInstants(z, local) : Render(z, e) = local
(* completeness: any instant (on a wide window) that renders to local is found *)
Complete == \A e \in (-2 * MaxJump * NT - 5)..(TMax + 2 * MaxJump * NT + 10) :
               Render(z, e) = local => e \in ValidInstants(z, local)
=============================================================================
