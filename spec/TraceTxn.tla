------------------------------ MODULE TraceTxn ------------------------------
(***************************************************************************)
(* Code -> specification for the transaction structure of one CLI step     *)
(* (C20).  The harness records the SQL statement stream of the step        *)
(* through sqlite3's trace callback (implicit BEGIN / COMMIT / ROLLBACK    *)
(* included) and reduces it to events begin / write / read / commit /      *)
(* rollback.  The trace specification re-uses Spowtd.tla's transaction     *)
(* actions: Begin, Write (any number: NW is the abstraction of "first,     *)
(* middle, last"), Commit, Fail.  A step that the harness observed to      *)
(* SUCCEED must be Begin Write+ Commit with every write inside the one     *)
(* transaction and exactly one effective commit; a step observed to FAIL   *)
(* must not contain a commit after a write; a READ-ONLY step contains no   *)
(* write at all.                                                           *)
(***************************************************************************)
EXTENDS Integers, Sequences, TLC, Json, IOUtils

Cases == JsonDeserialize(IOEnv.TRACE_FILE)
VARIABLES ci, ok

Fail(c, clause) == PrintT("FAIL " \o ToJson([id |-> c.id, stretch |-> 0, clause |-> clause]))
Chk(cond, c, clause) == IF cond THEN TRUE ELSE Fail(c, clause)

(* The stream is run-length encoded by the harness (<<event, count>>) so     *)
(* that long streams stay short sequences.  State machine: "idle" -> "open" *)
(* -> "done" / "rolledback"; returns <<final state, writes inside the       *)
(* transaction, violation text>>                                            *)
RECURSIVE Run(_, _, _, _)
Run(ev, k, st, nw) ==
    IF k > Len(ev) THEN <<st, nw, "">>
    ELSE LET e == ev[k][1] n == ev[k][2] IN
         IF e = "begin" THEN (IF st = "idle" /\ n = 1 THEN Run(ev, k + 1, "open", nw) ELSE <<st, nw, "second transaction">>)
         ELSE IF e = "write" THEN (IF st = "open" THEN Run(ev, k + 1, st, nw + n)
                                   ELSE <<st, nw, "write outside the transaction">>)
         ELSE IF e = "commit" THEN (IF st = "open" /\ n = 1 THEN Run(ev, k + 1, "done", nw) ELSE <<st, nw, "commit without transaction">>)
         ELSE IF e = "rollback" THEN (IF st = "open" THEN Run(ev, k + 1, "rolledback", nw) ELSE Run(ev, k + 1, st, nw))
         ELSE Run(ev, k + 1, st, nw)

Judge(c) ==
    LET r == Run(c.events, 1, "idle", 0) IN
    /\ Chk(r[3] = "", c, "C20 statement stream: " \o r[3])
    /\ Chk(c.outcome # "ok" \/ c.readonly \/ (r[1] = "done" /\ r[2] >= 1), c,
           "C20 a successful step is not BEGIN, writes, one COMMIT")
    /\ Chk(~c.readonly \/ r[2] = 0, c, "C20 a read-only command wrote to the dataset")
    /\ Chk(c.outcome = "ok" \/ r[1] # "done" \/ r[2] = 0, c, "C20 a failed step committed writes")

Init == ci = 1 /\ ok = TRUE
Next == ci <= Len(Cases) /\ ok' = Judge(Cases[ci]) /\ ci' = ci + 1
Spec == Init /\ [][Next]_<<ci, ok>>
AllConsumed == TLCGet("stats").diameter - 1 = Len(Cases) \/ Len(Cases) = 0
=============================================================================
