------------------------------- MODULE Regrid -------------------------------
(***************************************************************************)
(* Level crossings of a piecewise-linear sampled series (spowtd/regrid.py, *)
(* fit_offsets.build_head_mapping) in exact arithmetic.                    *)
(*                                                                         *)
(* A series is a sequence of samples [x |-> Int, p |-> Int, e |-> -1..1]:  *)
(* abscissa x (strictly increasing), ordinate in grid units Y = p / D      *)
(* displaced by e "ulps" (e orders values lexicographically: <<p, e>>; it  *)
(* models a sample one floating-point ulp beside the value p / D).  D is   *)
(* the common denominator of the ordinate lattice.                         *)
(*                                                                         *)
(* C12: for each consecutive pair, every integer n with                    *)
(*    lower <= n < upper      (lower included, upper excluded)             *)
(* is reported once, at the point where the straight line between the two  *)
(* samples equals n, in the direction of travel; nothing else is reported. *)
(***************************************************************************)
EXTENDS Integers, Sequences, FiniteSets

(* <<p, e>> compared with the integer level n, i.e. with <<n * D, 0>> *)
Below(s, n, D)   == s.p < n * D \/ (s.p = n * D /\ s.e < 0)      \* sample strictly below level n
AtOrAbove(s, n, D) == ~Below(s, n, D)
ValLess(a, b) == a.p < b.p \/ (a.p = b.p /\ a.e < b.e)

(* the integers n with  lo <= n < hi  where lo / hi are the lower / higher  *)
(* of the two sample values (lower included, upper excluded)               *)
Crossed(a, b, D, Range) ==
    LET lo == IF ValLess(a, b) THEN a ELSE b
        hi == IF ValLess(a, b) THEN b ELSE a
    IN  {n \in Range :
            /\ (lo.p < n * D \/ (lo.p = n * D /\ lo.e <= 0))      \* lo <= n
            /\ (n * D < hi.p \/ (n * D = hi.p /\ 0 < hi.e))}      \* n < hi

(* exact position of level n on the segment a -> b (ulps ignored: they move *)
(* the position by ~1e-16 relative), as a rational <<num, den>>, den > 0    *)
Position(a, b, n, D) ==
    LET dp == b.p - a.p
        num == a.x * dp + (n * D - a.p) * (b.x - a.x)
    IN  IF dp > 0 THEN <<num, dp>>
        ELSE IF dp < 0 THEN <<-num, -dp>>
        \* equal lattice value, different ulps: the level is the lattice value;
        \* it is AT the sample with e = 0, else somewhere between the two samples
        \* (den = 0 marks "anywhere in the bracket")
        ELSE IF a.e = 0 THEN <<a.x, 1>>
        ELSE IF b.e = 0 THEN <<b.x, 1>>
        ELSE <<0, 0>>

(* the report for one pair, in travel order *)
RECURSIVE SeqOfSetAsc(_), SeqOfSetDesc(_)
MinS(X) == CHOOSE x \in X : \A y \in X : x <= y
MaxS(X) == CHOOSE x \in X : \A y \in X : y <= x
SeqOfSetAsc(X) == IF X = {} THEN <<>> ELSE <<MinS(X)>> \o SeqOfSetAsc(X \ {MinS(X)})
SeqOfSetDesc(X) == IF X = {} THEN <<>> ELSE <<MaxS(X)>> \o SeqOfSetDesc(X \ {MaxS(X)})

PairReport(a, b, D, Range) ==
    LET ns == Crossed(a, b, D, Range)
        order == IF ValLess(a, b) THEN SeqOfSetAsc(ns) ELSE SeqOfSetDesc(ns)
    IN  [k \in 1..Len(order) |-> <<order[k], Position(a, b, order[k], D)>>]

RECURSIVE Report(_, _, _, _)
Report(ser, D, Range, i) ==
    IF i >= Len(ser) THEN <<>>
    ELSE PairReport(ser[i], ser[i + 1], D, Range) \o Report(ser, D, Range, i + 1)

Regrid(ser, D, Range) == Report(ser, D, Range, 1)

(* build_head_mapping for one series: per level, the mean of its crossing  *)
(* positions: <<level, sum num over common den..>> kept as the list of      *)
(* positions; the harness averages exact fractions                         *)
LevelsReported(rep) == {rep[k][1] : k \in 1..Len(rep)}
PositionsAt(rep, n) == [k \in {q \in 1..Len(rep) : rep[q][1] = n} |-> rep[k][2]]

(* consequences stated by C12 *)
Bracketed(ser, D, Range) ==
    \A i \in 1..(Len(ser) - 1) :
        LET rep == PairReport(ser[i], ser[i + 1], D, Range) IN
        \A k \in 1..Len(rep) :
            LET pos == rep[k][2] IN
            pos[2] # 0 =>
              /\ ser[i].x * pos[2] <= pos[1]
              /\ pos[1] <= ser[i + 1].x * pos[2]
EachLevelOncePerPair(ser, D, Range) ==
    \A i \in 1..(Len(ser) - 1) :
        LET rep == PairReport(ser[i], ser[i + 1], D, Range) IN
        \A k, q \in 1..Len(rep) : rep[k][1] = rep[q][1] => k = q
(* on the line: (pos - x_i) * (p_{i+1} - p_i) = (nD - p_i) * (x_{i+1} - x_i) *)
OnTheLine(ser, D, Range) ==
    \A i \in 1..(Len(ser) - 1) :
        LET a == ser[i] b == ser[i + 1] rep == PairReport(a, b, D, Range) IN
        \A k \in 1..Len(rep) :
            LET n == rep[k][1] pos == rep[k][2] IN
            (pos[2] # 0 /\ a.p # b.p) =>
              (pos[1] - a.x * pos[2]) * (b.p - a.p) = (n * D - a.p) * (b.x - a.x) * pos[2]
(* a strictly monotone series reports every level between its first and    *)
(* last sample exactly once overall                                        *)
MonotoneOnce(ser, D, Range) ==
    LET n == Len(ser)
        rising == \A i \in 1..(n - 1) : ValLess(ser[i], ser[i + 1])
        falling == \A i \in 1..(n - 1) : ValLess(ser[i + 1], ser[i])
        rep == Regrid(ser, D, Range)
    IN  (n >= 2 /\ (rising \/ falling)) =>
          /\ LevelsReported(rep) = Crossed(ser[1], ser[n], D, Range)
          /\ \A k, q \in 1..Len(rep) : rep[k][1] = rep[q][1] => k = q
=============================================================================
