---------------------------- MODULE MCHydraulics ----------------------------
(***************************************************************************)
(* Exhaustive small scope for C14 / C17 / C18 (polynomial specific yield)  *)
(* and C15 (log2-lattice transmissivity).  Mode "sy": every polynomial of  *)
(* the coefficient sets, knot range lo..hi (integers), integration limits  *)
(* a, b and split point m on the half-integer lattice extending Beyond     *)
(* units past both ends.  Mode "grid": increasing level grids.  Mode "t":  *)
(* knot / exponent vectors and levels.                                     *)
(***************************************************************************)
EXTENDS Hydraulics, TLC, Json

CONSTANTS Mode, C0s, C1s, C2s, C3s, Los, His, Beyond, GridLens, ZSets, Exps, Emit

\* constant sets for configs (cfg files cannot write negative numbers or tuples)
CoefA == {-1, 0, 2}
CoefB == {-1, 0, 1}
CoefPos == {0, 1}
OneZero == {0}
ZSetsA == {<<0, 4>>, <<0, 2, 6>>, <<-4, 0, 4, 12>>, <<2, 4, 8>>}
ZSetsB == {<<0, 8>>, <<0, 4, 12>>, <<-8, -4, 4>>, <<0, 2, 6, 14>>, <<1, 5, 9, 17>>}
(* a long gentle segment, a knot exactly at level 0, then a short steep one: the integrand has a sharp  *)
(* kink at 0 that a quadrature must be told about                                                      *)
ZSetsSharp == {<<-28, 0, 2>>, <<-28, 0, 2, 8>>, <<-14, -2, 0, 1>>}
ExpsSharp == {-6, 0, 8}
ExpsA == {-2, 0, 2, 4}
ExpsB == {-6, -4, 0, 2, 4, 8}
VARIABLES c, lo, hi, a, b, m, grid, tz, te, tx
vars == <<c, lo, hi, a, b, m, grid, tz, te, tx>>

Coefs == C0s \X C1s \X C2s \X C3s
Lattice2(l, h) == (2 * l - 2 * Beyond)..(2 * h + 2 * Beyond)

(* increasing sequences of length n over a set of doubled levels *)
RECURSIVE IncSeqs(_, _)
IncSeqs(S, n) ==
    IF n = 0 THEN {<<>>}
    ELSE UNION {{Append(s, x) : x \in {y \in S : s = <<>> \/ y > s[Len(s)]}} : s \in IncSeqs(S, n - 1)}

Init ==
    /\ IF Mode = "t" THEN c = <<0, 0, 0, 0>> /\ lo = 0 /\ hi = 3
       ELSE c \in Coefs /\ lo \in Los /\ hi \in His /\ hi - lo >= 3
    /\ a = 0 /\ b = 0 /\ m = 0 /\ grid = <<>> /\ tz = <<>> /\ te = <<>> /\ tx = 0

PickSy ==
    /\ Mode = "sy" /\ grid = <<>> /\ a = 0 /\ b = 0 /\ m = 0
    /\ \E aa \in Lattice2(lo, hi), bb \in Lattice2(lo, hi), mm \in Lattice2(lo, hi) :
         /\ <<aa, bb, mm>> # <<0, 0, 0>>
         /\ a' = aa /\ b' = bb /\ m' = mm
    /\ UNCHANGED <<c, lo, hi, grid, tz, te, tx>>

PickGrid ==
    /\ Mode = "grid" /\ grid = <<>>
    /\ \E n \in GridLens : \E g \in IncSeqs({x \in Lattice2(lo, hi) : x % 2 = 0 \/ x % 3 = 0}, n) : grid' = g
    /\ UNCHANGED <<c, lo, hi, a, b, m, tz, te, tx>>

PickT ==
    /\ Mode = "t" /\ tz = <<>>
    /\ \E z \in ZSets : \E e \in [1..Len(z) -> Exps] : \E x \in z[1]..z[Len(z)] :
         /\ Evaluable(z, e, x)
         /\ tz' = z /\ te' = e /\ tx' = x
    /\ UNCHANGED <<c, lo, hi, a, b, m, grid>>

Next == PickSy \/ PickGrid \/ PickT
Spec == Init /\ [][Next]_vars

lo2 == 2 * lo
hi2 == 2 * hi
ReadySy == Mode = "sy" /\ <<a, b, m>> # <<0, 0, 0>>
(* C14 *)
AlgorithmEqualsArea == ReadySy => Integrate192(c, lo2, hi2, a, b) = Area192(c, lo2, hi2, a, b)
Additive == ReadySy => Integrate192(c, lo2, hi2, a, m) + Integrate192(c, lo2, hi2, m, b) = Integrate192(c, lo2, hi2, a, b)
Antisymmetric == ReadySy => Integrate192(c, lo2, hi2, a, b) = -Integrate192(c, lo2, hi2, b, a)
ConstantOutside == ReadySy => /\ (a <= lo2 => Value8(c, lo2, hi2, a) = F8(c, lo2))
                              /\ (a >= hi2 => Value8(c, lo2, hi2, a) = F8(c, hi2))
(* C17 *)
ReadyGrid == Mode = "grid" /\ grid # <<>>
DifferencesAreIntegrals ==
    ReadyGrid => \A i, j \in 1..Len(grid) :
        Cum192(c, lo2, hi2, grid)[j] - Cum192(c, lo2, hi2, grid)[i] = Integrate192(c, lo2, hi2, grid[i], grid[j])
MonotoneIfNonNegative ==
    (ReadyGrid /\ NonNegativeOn(c, lo2, hi2)) =>
        \A i \in 1..(Len(grid) - 1) : Cum192(c, lo2, hi2, grid)[i] <= Cum192(c, lo2, hi2, grid)[i + 1]
(* C15 *)
ReadyT == Mode = "t" /\ tz # <<>>
TMonotone ==
    ReadyT => \A x \in tz[1]..tx : Evaluable(tz, te, x) =>
                 (TAB(tz, te, x)[1] <= TAB(tz, te, tx)[1] /\
                  \* B/ln2 + A is increasing: each sloping segment contributes a positive B
                  TAB(tz, te, x)[2] <= TAB(tz, te, tx)[2])
TFloor == ReadyT => TAB(tz, te, tz[1]) = <<0, 0>>

EmitInv ==
    Emit =>
      /\ ((ReadySy /\ m = a) => PrintT("EMIT " \o ToJson([mode |-> "sy", c |-> c, lo |-> lo, hi |-> hi, a2 |-> a, b2 |-> b,
                                               area192 |-> Area192(c, lo2, hi2, a, b),
                                               va8 |-> Value8(c, lo2, hi2, a), vb8 |-> Value8(c, lo2, hi2, b)])))
      /\ (ReadyGrid => PrintT("EMIT " \o ToJson([mode |-> "grid", c |-> c, lo |-> lo, hi |-> hi, grid2 |-> grid,
                                                 cum192 |-> Cum192(c, lo2, hi2, grid),
                                                 nonneg |-> NonNegativeOn(c, lo2, hi2)])))
      /\ (ReadyT => PrintT("EMIT " \o ToJson([mode |-> "t", z |-> tz, e |-> te, x |-> tx,
                                              ab |-> TAB(tz, te, tx), scale |-> Scale])))
=============================================================================
