---------------------------- MODULE TraceClassify ----------------------------
(***************************************************************************)
(* Code -> specification.  The harness ran the real `load` + `classify` on *)
(* records TLC did not choose (random, long, several gaps) and recorded,   *)
(* per case, the record (integers on the lattice) and the tables the code  *)
(* committed.  Each step of this specification consumes one case and       *)
(* judges the recorded tables against the definitions of Classify.tla.     *)
(* Verdicts are total: a failing clause is printed with the case id and    *)
(* the run goes on to the next case.                                       *)
(***************************************************************************)
EXTENDS Classify, TLC, Json, IOUtils

Cases == JsonDeserialize(IOEnv.TRACE_FILE)

VARIABLES i, ok
vars == <<i, ok>>

Rows(x) == {<<x[k][1], x[k][2]>> : k \in 1..Len(x)}

(* the matching the code recorded, as pairs <<storm run, rise run>> *)
ObsM(E, pairRows) == {sr \in E : <<sr[2][1], sr[1][1]>> \in pairRows}

Fail(c, k, clause) == PrintT("FAIL " \o ToJson([id |-> c.id, stretch |-> k, clause |-> clause]))
(* IF, not a disjunction: TLC would explore both disjuncts of an action *)
Chk(cond, c, k, clause) == IF cond THEN TRUE ELSE Fail(c, k, clause)

JudgeStretch(c, k) ==
    LET st == c.rec[k]
        o == c.obs[k]
        S == c.S
        J == c.J
        inst == Instance(st, S, J)
        pairRows == Rows(o.pair)
        storms == Storms(st, S)
        rises == Rises(st, J)
        \* a recorded pair of a storm and a rise that do not overlap is not in E:
        \* it then fails the one-to-one-join clause below
        M == ObsM(inst.E, pairRows)
        fl == FlagsAll(st, J)
        flagsOK == \A q \in Samples(st) : <<o.flags[q][1], o.flags[q][2], o.flags[q][3]>> = fl[q]
    IN
    /\ Chk(Len(o.flags) = Len(st.rain) /\ flagsOK, c, k, "C04 flags differ from the definitions")
    /\ Chk(Rows(o.inter) = Interstorms(st, J), c, k, "C04 interstorm intervals differ from the definition")
    /\ Chk(Rows(o.storm) \subseteq {StormRow(s) : s \in storms}, c, k,
           "C03 a recorded storm is not a maximal run of heavy steps")
    /\ Chk(Rows(o.rise) \subseteq {RiseRow(r) : r \in rises}, c, k,
           "C03 a recorded rise is not a maximal run of fast increments")
    /\ Chk(/\ Cardinality(M) = Cardinality(pairRows)
           /\ Cardinality(pairRows) = Len(o.pair)
           /\ Rows(o.storm) = {StormRow(e[1]) : e \in M}
           /\ Rows(o.rise) = {RiseRow(e[2]) : e \in M}, c, k,
           "C01 pair rows do not join recorded storms with recorded overlapping rises one to one")
    /\ Chk(IsMatching(M, inst.E), c, k, "C01 recorded pairs are not one-to-one")
    /\ Chk(IsMatching(M, inst.E) => NoBlockingPair(M, inst), c, k, "C02 blocking pair")
    /\ Chk((IsMatching(M, inst.E) /\ NoTies(inst) /\ Cardinality(inst.E) <= 12) => IsStormOptimal(M, inst),
           c, k, "C02 not the storm-optimal stable matching")
    /\ Chk(Rows(o.depth) = {<<e[1][1], Depth(st, e[1])>> : e \in M}, c, k,
           "C03 storm depth is not the sum over the storm's own steps")

Judge(c) == \A k \in 1..Len(c.rec) : JudgeStretch(c, k)

Init == i = 1 /\ ok = TRUE
(* Judge is evaluated as a state function (ok' = ...), not as an action: as  *)
(* an action its long conjunction overflows TLC's stack                    *)
Next == /\ i <= Len(Cases)
        /\ ok' = Judge(Cases[i])
        /\ i' = i + 1
Spec == Init /\ [][Next]_vars
AllConsumed == TLCGet("stats").diameter - 1 = Len(Cases) \/ Len(Cases) = 0
=============================================================================
