----------------------------- MODULE OnlineFlags -----------------------------
(***************************************************************************)
(* C04 for records of EVERY length.  get_mystery_jump_mask is an online    *)
(* machine with one boolean of state (in_mystery, initially TRUE); the     *)
(* definition of a clean-dry sample (Classify!CleanDryAll) has an          *)
(* equivalent streaming form with two booleans: wetSeen (some rainy step   *)
(* so far in the stretch) and dirty (a rain-free sample ending a fast      *)
(* increment since the last rainy step).  One step of this specification   *)
(* consumes one sample with ARBITRARY inputs (wet, jumpIn): the state      *)
(* space is finite (at most 2^5 states) although behaviours are unbounded, *)
(* so TLC's exhaustive exploration is a proof for all lengths that         *)
(*    in_mystery = ~wetSeen \/ dirty      (after every sample)             *)
(* and hence  is_mystery_jump = dry /\ ~cleanDry,  is_interstorm = cleanDry.*)
(* (That the streaming form equals the quantified definition is checked    *)
(* by MCClassify on all records up to the configured length.)              *)
(***************************************************************************)
VARIABLES inMystery, wetSeen, dirty, lastWet, started
vars == <<inMystery, wetSeen, dirty, lastWet, started>>

Init == inMystery = TRUE /\ wetSeen = FALSE /\ dirty = FALSE /\ lastWet = FALSE /\ started = FALSE

Sample(wet, jumpIn) ==
    \* the code: if raining: in_mystery = False; elif is_jump: in_mystery = True
    /\ inMystery' = (IF wet THEN FALSE ELSE IF jumpIn THEN TRUE ELSE inMystery)
    \* the definition, streaming
    /\ wetSeen' = (wetSeen \/ wet)
    /\ dirty' = (IF wet THEN FALSE ELSE (dirty \/ jumpIn))
    /\ lastWet' = wet
    /\ started' = TRUE

Next == \E wet \in BOOLEAN, jumpIn \in BOOLEAN : Sample(wet, jumpIn)
Spec == Init /\ [][Next]_vars

(* wetSeen' is the flag BEFORE the current sample's own rain for the clean-dry test of a
   dry sample; for a dry sample wetSeen' = wetSeen, so the relation can be stated on the
   post-state *)
CleanDry == started /\ ~lastWet /\ wetSeen /\ ~dirty
MachineEqualsDefinition == started => (inMystery = (~lastWet /\ ~CleanDry))
NeverBothFlags == ~(inMystery /\ CleanDry)
WetIsNeverMystery == (started /\ lastWet) => ~inMystery
=============================================================================
