------------------------------ MODULE RefLevel ------------------------------
(***************************************************************************)
(* C09: the reference water level of `rise -r` / `recession -r`.           *)
(* Grid step and reference are exact rationals (what the user's decimal    *)
(* strings denote): step = sn / sd, ref = (k + fn / fd) * step.            *)
(*   OnGrid  <=>  ref / step is an integer  <=>  fn = 0 (fn / fd in [0,1)) *)
(*   accepted references have index ref / step = k, and the master curve   *)
(*   is zero at level k * step.                                            *)
(* One state per (step, base, k, fraction); the expected verdict is        *)
(* emitted with the reference as an exact decimal numerator/denominator.   *)
(***************************************************************************)
EXTENDS Integers, Sequences, TLC, Json

CONSTANTS Steps,      \* set of <<sn, sd>>
          Bases,      \* level-id offsets of the datasets
          KWindow,    \* k ranges over base + KWindow
          Fracs,      \* set of <<fn, fd>>, 0 <= fn < fd
          Emit

VARIABLES step, base, k, frac
vars == <<step, base, k, frac>>

(* ref = (k * fd + fn) * sn / (fd * sd) *)
RefNum == (k * frac[2] + frac[1]) * step[1]
RefDen == frac[2] * step[2]
(* ref / step = (k * fd + fn) / fd *)
QuotNum == k * frac[2] + frac[1]
QuotDen == frac[2]
OnGrid == QuotNum % QuotDen = 0
RefIndex == QuotNum \div QuotDen

Init == step \in Steps /\ base \in Bases /\ k \in {base + d : d \in KWindow} /\ frac \in Fracs
Next == UNCHANGED vars
Spec == Init /\ [][Next]_vars

(* sanity of the arithmetic: on-grid iff the fraction is zero; index = k *)
Inv_OnGridIffWhole == OnGrid <=> frac[1] = 0
Inv_Index == OnGrid => RefIndex = k

EmitInv == Emit => PrintT("EMIT " \o ToJson([step |-> step, base |-> base, k |-> k, frac |-> frac,
                                             refNum |-> RefNum, refDen |-> RefDen,
                                             accept |-> OnGrid, index |-> IF OnGrid THEN RefIndex ELSE 0]))
=============================================================================
