------------------------------ MODULE MCExtras ------------------------------
EXTENDS Extras, Json
CONSTANTS Kss, Alphas, ZMaxs, ZWindow, Emit
VARIABLES ks, alpha, zmax, zcm
Init == /\ Init3 /\ ks \in Kss /\ alpha \in Alphas /\ zmax \in ZMaxs /\ zcm \in {zmax + d : d \in ZWindow}
Next == Next3 /\ UNCHANGED <<ks, alpha, zmax, zcm>>
Spec == Init /\ [][Next]_<<dict, outcome, ks, alpha, zmax, zcm>>
ZW == -12..2
Inv_Monotone == \A z2 \in {zmax + d : d \in ZW} : PeatMonotone(ks, alpha, zmax, zcm, z2)
Inv_RefusedAbove == PeatT(ks, alpha, zmax, zcm).refused <=> zcm > zmax
EmitInv == (Emit /\ dict = "typed" /\ outcome = "none") =>
             PrintT("EMIT " \o ToJson([ks |-> ks, alpha |-> alpha, zmax |-> zmax, zcm |-> zcm, t |-> PeatT(ks, alpha, zmax, zcm)]))
=============================================================================
