---------------------------- MODULE SpowtdProof ----------------------------
(***************************************************************************)
(* TLAPS proof, for ARBITRARY argument sets (TLC checks two values each),   *)
(* that `NoMixture` is an invariant of Spowtd.tla: whatever curves are on   *)
(* disk were computed from the classification and grid that are on disk.   *)
(* The inductive invariant adds what an open transaction carries: its      *)
(* working copy is the effect of its command on the (unchanged) disk, and  *)
(* the command could complete when it began.                               *)
(***************************************************************************)
EXTENDS Spowtd, TLAPS

Cmd == <<txn.cmd, txn.arg>>

TagsSet ==
    /\ disk.rise # NoCurve => (disk.rise.cls # NoVal /\ disk.rise.grid # NoVal)
    /\ disk.rec # NoCurve => (disk.rec.cls # NoVal /\ disk.rec.grid # NoVal)

DiskShape(d) == d = [cls |-> d.cls, grid |-> d.grid, curv |-> d.curv, rise |-> d.rise, rec |-> d.rec]

TxnShape == txn = [cmd |-> txn.cmd, arg |-> txn.arg, pc |-> txn.pc, work |-> txn.work]

IndInv ==
    /\ DiskShape(disk)
    /\ TxnShape
    /\ NoMixture
    /\ TagsSet
    /\ ~Idle => /\ Cmd \in Commands
                /\ CanComplete(disk, Cmd)
                /\ txn.work = Effect(disk, Cmd)

ASSUME ArgsAreNotNone ==
    /\ NoVal \notin ClsArgs /\ NoVal \notin GridArgs /\ NoVal \notin CurvArgs /\ NoVal \notin Refs

LEMMA InitInd == Init => IndInv
<1> SUFFICES ASSUME Init PROVE IndInv
    OBVIOUS
<1>1. disk.rise = NoCurve /\ disk.rec = NoCurve
    BY DEF Init, Empty
<1>2. txn.cmd = "none"
    BY DEF Init, NoTxn
<1>3. NoMixture
    BY <1>1 DEF NoMixture
<1>4. TagsSet
    BY <1>1 DEF TagsSet
<1>5. Idle
    BY <1>2 DEF Idle
<1>6. DiskShape(disk)
    BY DEF Init, Empty, DiskShape
<1>7. TxnShape
    BY DEF Init, NoTxn, TxnShape
<1> QED
    BY <1>3, <1>4, <1>5, <1>6, <1>7 DEF IndInv

LEMMA EffectKeeps ==
    ASSUME NEW d, NEW c \in Commands,
           d.rise # NoCurve => (d.rise.cls = d.cls /\ d.rise.grid = d.grid),
           d.rec # NoCurve => (d.rec.cls = d.cls /\ d.rec.grid = d.grid),
           d.rise # NoCurve => (d.rise.cls # NoVal /\ d.rise.grid # NoVal),
           d.rec # NoCurve => (d.rec.cls # NoVal /\ d.rec.grid # NoVal),
           DiskShape(d),
           CanComplete(d, c)
    PROVE  LET e == Effect(d, c) IN
           /\ DiskShape(e)
           /\ e.rise # NoCurve => (e.rise.cls = e.cls /\ e.rise.grid = e.grid)
           /\ e.rec # NoCurve => (e.rec.cls = e.cls /\ e.rec.grid = e.grid)
           /\ e.rise # NoCurve => (e.rise.cls # NoVal /\ e.rise.grid # NoVal)
           /\ e.rec # NoCurve => (e.rec.cls # NoVal /\ e.rec.grid # NoVal)
<1>0. c[1] \in {"classify", "set-zeta-grid", "set-curvature", "rise", "recession"} /\ c[2] # NoVal
    BY ArgsAreNotNone DEF Commands, NoVal
<1>1. CASE c[1] = "classify"
    BY <1>0, <1>1 DEF Effect, CanComplete, Outcome, NoCurve, NoVal, DiskShape
<1>2. CASE c[1] = "set-zeta-grid"
    BY <1>0, <1>2 DEF Effect, CanComplete, Outcome, NoCurve, NoVal, DiskShape
<1>3. CASE c[1] = "set-curvature"
    BY <1>0, <1>3 DEF Effect, CanComplete, Outcome, NoCurve, NoVal, DiskShape
<1>4. CASE c[1] = "rise"
    BY <1>0, <1>4 DEF Effect, CanComplete, Outcome, NoCurve, NoVal, DiskShape
<1>5. CASE c[1] = "recession"
    BY <1>0, <1>5 DEF Effect, CanComplete, Outcome, NoCurve, NoVal, DiskShape
<1> QED
    BY <1>0, <1>1, <1>2, <1>3, <1>4, <1>5

THEOREM StepInd == IndInv /\ [Next]_vars => IndInv'
<1> SUFFICES ASSUME IndInv, [Next]_vars PROVE IndInv'
    OBVIOUS
<1> USE DEF IndInv
<1>1. CASE UNCHANGED vars
    BY <1>1 DEF vars, NoMixture, TagsSet, Idle, Cmd, DiskShape, TxnShape, CanComplete, Outcome, Effect
<1>2. ASSUME NEW c \in Commands, Begin(c) PROVE IndInv'
    <2>1. c = <<c[1], c[2]>>
        BY DEF Commands
    <2>2. txn' = [cmd |-> c[1], arg |-> c[2], pc |-> 0, work |-> Effect(disk, c)] /\ disk' = disk /\ CanComplete(disk, c)
        BY <1>2 DEF Begin
    <2>3. Cmd' = c /\ TxnShape' /\ ~Idle'
        BY <2>1, <2>2, ArgsAreNotNone DEF Cmd, TxnShape, Idle, Commands, NoVal
    <2> QED
        BY <2>2, <2>3 DEF NoMixture, TagsSet, DiskShape, Cmd
<1>3. ASSUME NEW c \in Commands, Doomed(c) PROVE IndInv'
    BY <1>3 DEF Doomed, NoMixture, TagsSet, Idle, Cmd, DiskShape, TxnShape
<1>4. ASSUME NEW c \in ReadOnly, Read(c) \/ ReadFails(c) PROVE IndInv'
    BY <1>4 DEF Read, ReadFails, NoMixture, TagsSet, Idle, Cmd, DiskShape, TxnShape
<1>5. CASE Write
    <2>1. txn' = [txn EXCEPT !.pc = @ + 1] /\ disk' = disk /\ ~Idle
        BY <1>5 DEF Write
    <2>2. txn'.cmd = txn.cmd /\ txn'.arg = txn.arg /\ txn'.work = txn.work /\ TxnShape'
        BY <2>1 DEF TxnShape
    <2> QED
        BY <2>1, <2>2 DEF NoMixture, TagsSet, Idle, Cmd, DiskShape
<1>6. CASE Commit
    <2>1. ~Idle /\ disk' = txn.work /\ txn' = NoTxn
        BY <1>6 DEF Commit
    <2>2. Cmd \in Commands /\ CanComplete(disk, Cmd) /\ txn.work = Effect(disk, Cmd)
        BY <2>1
    <2>3. /\ DiskShape(disk')
          /\ disk'.rise # NoCurve => (disk'.rise.cls = disk'.cls /\ disk'.rise.grid = disk'.grid)
          /\ disk'.rec # NoCurve => (disk'.rec.cls = disk'.cls /\ disk'.rec.grid = disk'.grid)
          /\ disk'.rise # NoCurve => (disk'.rise.cls # NoVal /\ disk'.rise.grid # NoVal)
          /\ disk'.rec # NoCurve => (disk'.rec.cls # NoVal /\ disk'.rec.grid # NoVal)
        BY <2>1, <2>2, EffectKeeps DEF NoMixture, TagsSet
    <2>4. Idle' /\ TxnShape'
        BY <2>1 DEF Idle, NoTxn, TxnShape
    <2> QED
        BY <2>3, <2>4 DEF NoMixture, TagsSet
<1>7. CASE Fail \/ Kill
    BY <1>7 DEF Fail, Kill, NoMixture, TagsSet, Idle, NoTxn, DiskShape, TxnShape
<1> QED
    BY <1>1, <1>2, <1>3, <1>4, <1>5, <1>6, <1>7 DEF Next

THEOREM NoMixtureAlways == Spec => []NoMixture
<1>1. Init => IndInv
    BY InitInd
<1>2. IndInv /\ [Next]_vars => IndInv'
    BY StepInd
<1>3. IndInv => NoMixture
    BY DEF IndInv
<1> QED
    BY <1>1, <1>2, <1>3, PTL DEF Spec

(* C20's all-or-nothing clause as an action property, for arbitrary argument sets: the disk changes
   only at Commit, and then to the complete working copy *)
AtomicStep == disk' = disk \/ (~Idle /\ txn.pc = NW /\ disk' = txn.work)

LEMMA NextIsAtomic == [Next]_vars => AtomicStep
<1> SUFFICES ASSUME [Next]_vars PROVE AtomicStep
    OBVIOUS
<1>1. CASE UNCHANGED vars
    BY <1>1 DEF vars, AtomicStep
<1>2. ASSUME NEW c \in Commands, Begin(c) \/ Doomed(c) PROVE AtomicStep
    BY <1>2 DEF Begin, Doomed, AtomicStep
<1>3. ASSUME NEW c \in ReadOnly, Read(c) \/ ReadFails(c) PROVE AtomicStep
    BY <1>3 DEF Read, ReadFails, AtomicStep
<1>4. CASE Write \/ Fail \/ Kill
    BY <1>4 DEF Write, Fail, Kill, AtomicStep
<1>5. CASE Commit
    BY <1>5 DEF Commit, AtomicStep
<1> QED
    BY <1>1, <1>2, <1>3, <1>4, <1>5 DEF Next

THEOREM AtomicAlways == Spec => Atomic
<1>1. [Next]_vars => AtomicStep
    BY NextIsAtomic
<1> QED
    BY <1>1, PTL DEF Spec, Atomic, AtomicStep
=============================================================================
