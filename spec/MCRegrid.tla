------------------------------ MODULE MCRegrid ------------------------------
(***************************************************************************)
(* All series of 2..MaxN samples with ordinates p / D, p in Ps, displaced  *)
(* by e in Es ulps, abscissa gaps in Gaps.  One state per series (two-phase *)
(* so that workers share the enumeration).                                 *)
(***************************************************************************)
EXTENDS Regrid, TLC, Json

CONSTANTS MaxN, Ps, Es, Gaps, D, Emit
VARIABLES n, ser
\* alphabets (a cfg file cannot write negative numbers)
PsA == {-2, -1, 0, 1, 2, 3, 5}
PsB == {-1, 0, 1, 2, 5}
PsC == {-2, -1, 0, 1, 3}
PsD == {-3, -1, 0, 1, 2, 5}
PsW == {-3, 0, 1, 17, 20}      \* pairs of samples 8 to 11 grid levels apart
EsAll == {-1, 0, 1}
EsNone == {0}
vars == <<n, ser>>
Range == (MinS(Ps) \div D - 2)..(MaxS(Ps) \div D + 2)

Init == n \in 2..MaxN /\ ser = <<>>
Pick ==
    /\ ser = <<>>
    /\ \E ps \in [1..n -> Ps], es \in [1..n -> Es], gs \in [1..(n - 1) -> Gaps] :
         LET xs[k \in 1..n] == IF k = 1 THEN 0 ELSE xs[k - 1] + gs[k - 1]
         IN  ser' = [k \in 1..n |-> [x |-> xs[k], p |-> ps[k], e |-> es[k]]]
    /\ UNCHANGED n
Next == Pick \/ (ser # <<>> /\ UNCHANGED vars)
Spec == Init /\ [][Next]_vars

Ready == ser # <<>>
Inv_Bracketed == Ready => Bracketed(ser, D, Range)
Inv_Once == Ready => EachLevelOncePerPair(ser, D, Range)
Inv_OnTheLine == Ready => OnTheLine(ser, D, Range)
Inv_Monotone == Ready => MonotoneOnce(ser, D, Range)
EmitInv == (Emit /\ Ready) => PrintT("EMIT " \o ToJson([ser |-> ser, D |-> D, rep |-> Regrid(ser, D, Range)]))
=============================================================================
