------------------------------ MODULE TracePlot ------------------------------
(***************************************************************************)
(* What `spowtd plot recession` and `spowtd plot rise` draw (beyond the     *)
(* listed properties).  A case is one figure produced by the real command   *)
(* on a dataset generated from a planted truth (Hydro.tla): the magenta     *)
(* lines (one per interval of the master curve, on the shifted axis) and    *)
(* the master line, in fixed point, with the levels in half millimetres.    *)
(*                                                                          *)
(* recession: abscissa in units of 0.01 s; truth T*(h) in time steps is     *)
(*   piecewise linear between the lattice levels z[1] > z[2] > ... (one     *)
(*   step apart): T*(h2) = (a - 1) + (2 z[a] - h2) / (2 (z[a] - z[a+1])).   *)
(* rise: abscissa in units of 1e-4 mm; truth W*(h2) = h2 / (2 SyDen) mm.    *)
(*                                                                          *)
(* Every drawn point must lie on the truth shifted by ONE constant (fixed   *)
(* by the first point of the master line), the master line must list the    *)
(* levels of the master curve, and the magenta lines must be exactly the    *)
(* lines the tables describe (c.expected, read by the harness' own SQL).    *)
(***************************************************************************)
EXTENDS Integers, Sequences, FiniteSets, TLC, Json, IOUtils

Cases == JsonDeserialize(IOEnv.TRACE_FILE)
VARIABLES i, ok

Fail(c, clause, w) == PrintT("FAIL " \o ToJson([id |-> c.id, stretch |-> w, clause |-> clause]))
Chk(cond, c, clause, w) == IF cond THEN TRUE ELSE Fail(c, clause, w)
Abs(x) == IF x < 0 THEN -x ELSE x

(* truth, as a pair <<numerator, denominator>> in the case's abscissa units *)
Seg(z, h2) == CHOOSE a \in 1..(Len(z) - 1) : 2 * z[a] >= h2 /\ h2 >= 2 * z[a + 1]
InTruth(c, h2) == IF c.kind = "recession" THEN \E a \in 1..(Len(c.z) - 1) : 2 * c.z[a] >= h2 /\ h2 >= 2 * c.z[a + 1]
                  ELSE TRUE
TruthNum(c, h2) ==
    IF c.kind = "recession"
    THEN LET a == Seg(c.z, h2) IN (2 * (a - 1) * (c.z[a] - c.z[a + 1]) + (2 * c.z[a] - h2)) * c.unitsPerStep
    ELSE h2 * 10000
TruthDen(c, h2) ==
    IF c.kind = "recession" THEN LET a == Seg(c.z, h2) IN 2 * (c.z[a] - c.z[a + 1]) ELSE 2 * c.syden

(* point p = <<x, h2>> lies on the truth shifted by the constant of point q *)
SameShift(c, p, q) ==
    LET dp == TruthDen(c, p[2]) dq == TruthDen(c, q[2]) IN
    \* (x_p - T(p)) = (x_q - T(q))   multiplied by dp * dq
    Abs((p[1] * dp - TruthNum(c, p[2])) * dq - (q[1] * dq - TruthNum(c, q[2])) * dp) <= c.tol * dp * dq

SeqSet(s) == {s[k] : k \in 1..Len(s)}

Judge(c) ==
    LET q == c.master[1] IN
    /\ Chk(Len(c.lines) = c.members, c, "PLOT one magenta line per interval of the master curve", Len(c.lines))
    /\ Chk(SeqSet(c.lines) = SeqSet(c.expected), c, "PLOT the magenta lines are not the shifted intervals the tables describe", 0)
    /\ Chk([k \in 1..Len(c.master) |-> c.master[k][2]] = c.levels, c,
           "PLOT the master line does not list the levels of the master curve in the order of the view", 0)
    /\ \A k \in 1..Len(c.master) :
         Chk(InTruth(c, c.master[k][2]) => SameShift(c, c.master[k], q), c, "PLOT the master line is not the planted curve", k)
    /\ \A l \in 1..Len(c.lines) : \A k \in 1..Len(c.lines[l]) :
         Chk(InTruth(c, c.lines[l][k][2]) => SameShift(c, c.lines[l][k], q), c,
             "PLOT a point of a shifted interval does not lie on the planted curve (same shift as the master line)", l)

Init == i = 1 /\ ok = TRUE
Next == i <= Len(Cases) /\ ok' = Judge(Cases[i]) /\ i' = i + 1
Spec == Init /\ [][Next]_<<i, ok>>
AllConsumed == TLCGet("stats").diameter - 1 = Len(Cases) \/ Len(Cases) = 0
=============================================================================
