------------------------------ MODULE Matching ------------------------------
(***************************************************************************)
(* Storm / rise arbitration (spowtd/classify.py: disambiguate_matching,    *)
(* find_stable_matching; user guide appendix A).                           *)
(*                                                                         *)
(* An instance is a record                                                 *)
(*     [E |-> set of <<storm, rise>> candidate pairs,                      *)
(*      dur |-> [E -> Nat]   |duration(storm) - duration(rise)|,           *)
(*      off |-> [E -> Nat]   |start(rise) - start(storm)| ]                *)
(* Smaller is better on both sides: a storm ranks its candidate rises by   *)
(* dur, a rise ranks its candidate storms by off.                          *)
(*                                                                         *)
(* The module gives (1) the declarative notions the property C02 speaks of *)
(* (matching, blocking pair, stable, storm-optimal) and (2) a transcription*)
(* of the deferred-acceptance loop, one action per loop iteration, with    *)
(* the storm taken from the pool chosen nondeterministically (the code     *)
(* uses set.pop()).                                                        *)
(***************************************************************************)
EXTENDS Integers, FiniteSets, Sequences

StormsOf(E) == {e[1] : e \in E}
RisesOf(E)  == {e[2] : e \in E}

IsMatching(M, E) ==
    /\ M \subseteq E
    /\ \A a, b \in M : (a[1] = b[1] \/ a[2] = b[2]) => a = b

StormMatched(M, s) == \E e \in M : e[1] = s
RiseMatched(M, r)  == \E e \in M : e[2] = r
RiseOf(M, s)  == CHOOSE r \in RisesOf(M)  : <<s, r>> \in M
StormOf(M, r) == CHOOSE s \in StormsOf(M) : <<s, r>> \in M

(* The property's own wording: an overlapping storm and rise, not matched  *)
(* to each other, such that the storm is unmatched or would obtain a       *)
(* strictly closer duration AND the rise is unmatched or would obtain a    *)
(* strictly closer start time.                                             *)
Blocking(M, inst, e) ==
    /\ e \in inst.E
    /\ e \notin M
    /\ \/ ~StormMatched(M, e[1])
       \/ inst.dur[e] < inst.dur[<<e[1], RiseOf(M, e[1])>>]
    /\ \/ ~RiseMatched(M, e[2])
       \/ inst.off[e] < inst.off[<<StormOf(M, e[2]), e[2]>>]

NoBlockingPair(M, inst) == \A e \in inst.E : ~Blocking(M, inst, e)
Stable(M, inst) == IsMatching(M, inst.E) /\ NoBlockingPair(M, inst)
AllStable(inst) == {M \in SUBSET inst.E : Stable(M, inst)}

NoTies(inst) ==
    \A a, b \in inst.E :
        a # b =>
          /\ (a[1] = b[1] => inst.dur[a] # inst.dur[b])
          /\ (a[2] = b[2] => inst.off[a] # inst.off[b])

(* storm s weakly prefers matching M1 to M2 *)
StormWeaklyPrefers(inst, s, M1, M2) ==
    \/ ~StormMatched(M2, s)
    \/ /\ StormMatched(M1, s)
       /\ inst.dur[<<s, RiseOf(M1, s)>>] <= inst.dur[<<s, RiseOf(M2, s)>>]

IsStormOptimal(M, inst) ==
    /\ Stable(M, inst)
    /\ \A M2 \in AllStable(inst) :
          \A s \in StormsOf(inst.E) : StormWeaklyPrefers(inst, s, M, M2)

(***************************************************************************)
(* The loop.  State: pool (matchable_storms), rem[s] (candidates of s not  *)
(* yet proposed to: the code's per-storm stack, popped best first), M      *)
(* (matches, rise -> storm, kept as a set of pairs).                       *)
(***************************************************************************)
LoopInit(inst) ==
    [pool |-> StormsOf(inst.E),
     rem  |-> [s \in StormsOf(inst.E) |-> {e[2] : e \in {x \in inst.E : x[1] = s}}],
     M    |-> {}]

Best(inst, s, R) == {r \in R : \A q \in R : inst.dur[<<s, r>>] <= inst.dur[<<s, q>>]}

(* One iteration with storm s proposing to rise r (one of its best          *)
(* remaining candidates; which one among ties is left open).               *)
Iterate(inst, L, s, r) ==
    LET rem1 == [L.rem EXCEPT ![s] = @ \ {r}]
        pool1 == L.pool \ {s}
    IN  IF ~RiseMatched(L.M, r)
        THEN \* AcceptFree
             [pool |-> pool1, rem |-> rem1, M |-> L.M \cup {<<s, r>>}]
        ELSE LET cur == StormOf(L.M, r) IN
             IF inst.off[<<s, r>>] < inst.off[<<cur, r>>]
             THEN \* Displace: the displaced storm goes back to the pool
                  \* only if it has somebody left to propose to
                  [pool |-> IF rem1[cur] # {} THEN pool1 \cup {cur} ELSE pool1,
                   rem  |-> rem1,
                   M    |-> (L.M \ {<<cur, r>>}) \cup {<<s, r>>}]
             ELSE \* Reject: the proposer stays in the pool only if it has
                  \* somebody left
                  [pool |-> IF rem1[s] # {} THEN pool1 \cup {s} ELSE pool1,
                   rem  |-> rem1,
                   M    |-> L.M]

LoopSteps(inst, L) ==
    {Iterate(inst, L, x[1], x[2]) : x \in
        {y \in L.pool \X RisesOf(inst.E) : y[2] \in Best(inst, y[1], L.rem[y[1]])}}

LoopDone(L) == L.pool = {}

(* Loop invariants: every storm in the pool has a candidate left (the      *)
(* code asserts this), matched storms are not in the pool, M is a matching *)
LoopInv(inst, L) ==
    /\ \A s \in L.pool : L.rem[s] # {}
    /\ \A s \in L.pool : ~StormMatched(L.M, s)
    /\ IsMatching(L.M, inst.E)
    /\ \A e \in L.M : e[2] \notin L.rem[e[1]]
=============================================================================
