--------------------------- MODULE TraceStationary ---------------------------
(***************************************************************************)
(* C05, code -> specification, on the tables written by `rise` and         *)
(* `recession`.  A case lists, per level of the master curve, the          *)
(* intervals crossing it with their SHIFTED crossing value                 *)
(* (offset + mean crossing) in fixed point.  The offsets are optimal iff   *)
(* for every interval the residuals against the level means sum to zero;   *)
(* in fixed point each term carries a rounding error below 2 units, so the *)
(* sum over m levels must stay within 2 m + slack.  Every level kept has   *)
(* at least two intervals.                                                 *)
(***************************************************************************)
EXTENDS Integers, Sequences, FiniteSets, FiniteSetsExt, TLC, Json, IOUtils

Cases == JsonDeserialize(IOEnv.TRACE_FILE)
VARIABLES i, ok

Fail(c, clause, w) == PrintT("FAIL " \o ToJson([id |-> c.id, stretch |-> w, clause |-> clause]))
Chk(cond, c, clause, w) == IF cond THEN TRUE ELSE Fail(c, clause, w)
Abs(x) == IF x < 0 THEN -x ELSE x

SumSeq(s) == LET RECURSIVE f(_)
                 f(k) == IF k = 0 THEN 0 ELSE f(k - 1) + s[k]
             IN  f(Len(s))
MeanOf(lv) == SumSeq(lv.v) \div Len(lv.v)
PosIn(lv, s) == CHOOSE k \in 1..Len(lv.s) : lv.s[k] = s
Has(lv, s) == \E k \in 1..Len(lv.s) : lv.s[k] = s

ResidualSum(c, s) ==
    MapThenSumSet(LAMBDA q : c.levels[q].v[PosIn(c.levels[q], s)] - MeanOf(c.levels[q]),
                  {q \in 1..Len(c.levels) : Has(c.levels[q], s)})
NLevels(c, s) == Cardinality({q \in 1..Len(c.levels) : Has(c.levels[q], s)})

Judge(c) ==
    /\ Chk(Len(c.orphans) = 0, c, "C05 crossing rows of an interval that has no offset in the master curve",
           IF Len(c.orphans) = 0 THEN 0 ELSE c.orphans[1])
    /\ \A q \in 1..Len(c.levels) :
         Chk(Len(c.levels[q].s) >= 2, c, "C05 a level of the master curve has fewer than two intervals", q)
    /\ \A k \in 1..Len(c.intervals) :
         LET s == c.intervals[k] IN
         /\ Chk(NLevels(c, s) >= 1, c, "C05 an interval of the master curve crosses no kept level", k)
         /\ Chk(Abs(ResidualSum(c, s)) <= 2 * NLevels(c, s) + c.slack, c,
                "C05 residuals of an interval against the master curve do not sum to zero", k)

Init == i = 1 /\ ok = TRUE
Next == i <= Len(Cases) /\ ok' = Judge(Cases[i]) /\ i' = i + 1
Spec == Init /\ [][Next]_<<i, ok>>
AllConsumed == TLCGet("stats").diameter - 1 = Len(Cases) \/ Len(Cases) = 0
=============================================================================
