-------------------------- MODULE SpowtdConfluent --------------------------
(***************************************************************************)
(* TLAPS proof, for ARBITRARY argument sets, that `Confluent` is an         *)
(* invariant of Spowtd.tla: the committed content of the dataset file is a  *)
(* function of the SET of completed steps (with their arguments) alone --   *)
(* not of their order, nor of failed, killed or refused attempts in         *)
(* between.  Builds on the inductive invariant of SpowtdProof.tla, adding   *)
(* the shape of the two curve records.                                      *)
(***************************************************************************)
EXTENDS SpowtdProof

CurveShape(x) == x = [ref |-> x.ref, cls |-> x.cls, grid |-> x.grid]

Inv2 == IndInv /\ CurveShape(disk.rise) /\ CurveShape(disk.rec)

LEMMA NoCurveShape == CurveShape(NoCurve)
BY DEF CurveShape, NoCurve

LEMMA Init2 == Init => Inv2
<1> SUFFICES ASSUME Init PROVE Inv2
    OBVIOUS
<1>1. IndInv
    BY InitInd
<1>2. disk.rise = NoCurve /\ disk.rec = NoCurve
    BY DEF Init, Empty
<1> QED
    BY <1>1, <1>2, NoCurveShape DEF Inv2

LEMMA EffectShape ==
    ASSUME NEW d, NEW c \in Commands, DiskShape(d), CurveShape(d.rise), CurveShape(d.rec)
    PROVE  CurveShape(Effect(d, c).rise) /\ CurveShape(Effect(d, c).rec)
<1>0. c[1] \in {"classify", "set-zeta-grid", "set-curvature", "rise", "recession"}
    BY DEF Commands
<1>1. CASE c[1] = "classify"
    BY <1>1 DEF Effect, DiskShape, CurveShape
<1>2. CASE c[1] = "set-zeta-grid"
    BY <1>2 DEF Effect, DiskShape, CurveShape
<1>3. CASE c[1] = "set-curvature"
    BY <1>3 DEF Effect, DiskShape, CurveShape
<1>4. CASE c[1] = "rise"
    BY <1>4 DEF Effect, DiskShape, CurveShape
<1>5. CASE c[1] = "recession"
    BY <1>5 DEF Effect, DiskShape, CurveShape
<1> QED
    BY <1>0, <1>1, <1>2, <1>3, <1>4, <1>5

LEMMA Step2 == Inv2 /\ [Next]_vars => Inv2'
<1> SUFFICES ASSUME Inv2, [Next]_vars PROVE Inv2'
    OBVIOUS
<1>1. IndInv'
    BY StepInd DEF Inv2
<1>2. CASE disk' = disk
    BY <1>1, <1>2 DEF Inv2, CurveShape
<1>3. CASE Commit
    <2>1. ~Idle /\ disk' = txn.work
        BY <1>3 DEF Commit
    <2>2. Cmd \in Commands /\ txn.work = Effect(disk, Cmd) /\ DiskShape(disk)
        BY <2>1 DEF Inv2, IndInv
    <2> QED
        BY <1>1, <2>1, <2>2, EffectShape DEF Inv2
<1>4. disk' = disk \/ Commit
    <2>1. CASE UNCHANGED vars
        BY <2>1 DEF vars
    <2>2. ASSUME NEW c \in Commands, Begin(c) \/ Doomed(c) PROVE disk' = disk
        BY <2>2 DEF Begin, Doomed
    <2>3. ASSUME NEW c \in ReadOnly, Read(c) \/ ReadFails(c) PROVE disk' = disk
        BY <2>3 DEF Read, ReadFails
    <2>4. CASE Write \/ Fail \/ Kill
        BY <2>4 DEF Write, Fail, Kill
    <2> QED
        BY <2>1, <2>2, <2>3, <2>4 DEF Next
<1> QED
    BY <1>2, <1>3, <1>4

(* what FromSet reads back from Completed(d) *)
LEMMA ReadBack ==
    ASSUME NEW d, DiskShape(d), CurveShape(d.rise), CurveShape(d.rec),
           d.rise # NoCurve => (d.rise.cls = d.cls /\ d.rise.grid = d.grid),
           d.rec # NoCurve => (d.rec.cls = d.cls /\ d.rec.grid = d.grid),
           d.rise # NoCurve => (d.rise.cls # NoVal /\ d.rise.grid # NoVal),
           d.rec # NoCurve => (d.rec.cls # NoVal /\ d.rec.grid # NoVal)
    PROVE  d = FromSet(Completed(d))
<1> DEFINE S == Completed(d)
<1> DEFINE pick(name) == IF \E x \in S : x[1] = name THEN (CHOOSE x \in S : x[1] = name)[2] ELSE NoVal
<1>1. pick("classify") = d.cls
    <2>1. CASE d.cls = NoVal
        BY <2>1 DEF Completed
    <2>2. CASE d.cls # NoVal
        <3>1. <<"classify", d.cls>> \in S
            BY <2>2 DEF Completed
        <3>2. \A x \in S : x[1] = "classify" => x = <<"classify", d.cls>>
            BY DEF Completed
        <3> QED
            BY <3>1, <3>2
    <2> QED
        BY <2>1, <2>2
<1>2. pick("set-zeta-grid") = d.grid
    <2>1. CASE d.grid = NoVal
        BY <2>1 DEF Completed
    <2>2. CASE d.grid # NoVal
        <3>1. <<"set-zeta-grid", d.grid>> \in S
            BY <2>2 DEF Completed
        <3>2. \A x \in S : x[1] = "set-zeta-grid" => x = <<"set-zeta-grid", d.grid>>
            BY DEF Completed
        <3> QED
            BY <3>1, <3>2
    <2> QED
        BY <2>1, <2>2
<1>3. pick("set-curvature") = d.curv
    <2>1. CASE d.curv = NoVal
        BY <2>1 DEF Completed
    <2>2. CASE d.curv # NoVal
        <3>1. <<"set-curvature", d.curv>> \in S
            BY <2>2 DEF Completed
        <3>2. \A x \in S : x[1] = "set-curvature" => x = <<"set-curvature", d.curv>>
            BY DEF Completed
        <3> QED
            BY <3>1, <3>2
    <2> QED
        BY <2>1, <2>2
<1>4. /\ (\E x \in S : x[1] = "rise") <=> d.rise # NoCurve
      /\ d.rise # NoCurve => pick("rise") = d.rise.ref
    <2>1. CASE d.rise = NoCurve
        BY <2>1 DEF Completed
    <2>2. CASE d.rise # NoCurve
        <3>1. <<"rise", d.rise.ref>> \in S
            BY <2>2 DEF Completed
        <3>2. \A x \in S : x[1] = "rise" => x = <<"rise", d.rise.ref>>
            BY DEF Completed
        <3> QED
            BY <2>2, <3>1, <3>2
    <2> QED
        BY <2>1, <2>2
<1>5. /\ (\E x \in S : x[1] = "recession") <=> d.rec # NoCurve
      /\ d.rec # NoCurve => pick("recession") = d.rec.ref
    <2>1. CASE d.rec = NoCurve
        BY <2>1 DEF Completed
    <2>2. CASE d.rec # NoCurve
        <3>1. <<"recession", d.rec.ref>> \in S
            BY <2>2 DEF Completed
        <3>2. \A x \in S : x[1] = "recession" => x = <<"recession", d.rec.ref>>
            BY DEF Completed
        <3> QED
            BY <2>2, <3>1, <3>2
    <2> QED
        BY <2>1, <2>2
<1>6. FromSet(S) = [cls |-> d.cls, grid |-> d.grid, curv |-> d.curv,
                    rise |-> IF d.rise = NoCurve THEN NoCurve ELSE [ref |-> d.rise.ref, cls |-> d.cls, grid |-> d.grid],
                    rec |-> IF d.rec = NoCurve THEN NoCurve ELSE [ref |-> d.rec.ref, cls |-> d.cls, grid |-> d.grid]]
    BY <1>1, <1>2, <1>3, <1>4, <1>5 DEF FromSet
<1>7. (IF d.rise = NoCurve THEN NoCurve ELSE [ref |-> d.rise.ref, cls |-> d.cls, grid |-> d.grid]) = d.rise
    BY DEF CurveShape
<1>8. (IF d.rec = NoCurve THEN NoCurve ELSE [ref |-> d.rec.ref, cls |-> d.cls, grid |-> d.grid]) = d.rec
    BY DEF CurveShape
<1> QED
    BY <1>6, <1>7, <1>8 DEF DiskShape

THEOREM ConfluentAlways == Spec => []Confluent
<1>1. Init => Inv2
    BY Init2
<1>2. Inv2 /\ [Next]_vars => Inv2'
    BY Step2
<1>3. Inv2 => Confluent
    <2> SUFFICES ASSUME Inv2 PROVE Confluent
        OBVIOUS
    <2> QED
        BY ReadBack DEF Inv2, IndInv, NoMixture, TagsSet, Confluent
<1> QED
    BY <1>1, <1>2, <1>3, PTL DEF Spec
=============================================================================
