------------------------------- MODULE MCLoad -------------------------------
(***************************************************************************)
(* All small input triples: rainfall on step P from offset ra (optionally  *)
(* with one interior row missing: non-uniform), evapotranspiration on the  *)
(* same step (optionally with one row missing), water level on step Q from *)
(* offset za with up to two interior blocks of rows missing (gaps).  One   *)
(* state per configuration; the expected outcome of `load` is emitted.     *)
(***************************************************************************)
EXTENDS Load, TLC, Json

CONSTANTS Ps, Qs, MaxRa, NRs, MaxZa, NZs, Emit

VARIABLES in, cfg
vars == <<in, cfg>>

RainRows(P, ra, nr, drop) == {<<ra + i * P, i + 1>> : i \in (0..(nr - 1)) \ {drop}}
EtRows(P, ea, ne, drop)   == {<<ea + i * P, 3 * i + 2>> : i \in (0..(ne - 1)) \ {drop}}
(* level values are quadratic in the sample index: interpolating between   *)
(* the wrong pair of samples gives a different number                      *)
(* slip >= 1: the logger was re-synchronised once -- every row from index slip on comes one tick late,   *)
(* so one spacing is Q + 1: longer than the record's step but not a multiple of it (still a gap)        *)
LevRows(Q, za, nz, miss, slip) ==
    {<<za + k * Q + (IF slip >= 1 /\ k >= slip THEN 1 ELSE 0), ((k * k) % 11) + k>> : k \in (0..(nz - 1)) \ miss}

Blocks(nz) ==   \* sets of interior indices missing: none, one block, two blocks
    {{}} \cup {a..b : a \in 1..(nz - 2), b \in 1..(nz - 2)}
         \cup {(a..a) \cup (b..b) : a \in 1..(nz - 2), b \in 1..(nz - 2)}

(* two phases so that TLC's workers share the enumeration: Init fixes the    *)
(* shape, Pick (one step) chooses gaps and missing rows                     *)
NoInput == [rain |-> {}, et |-> {}, lev |-> {}]
Init ==
    \E P \in Ps, Q \in Qs, ra \in 0..MaxRa, nr \in NRs, za \in 0..MaxZa, nz \in NZs :
        /\ cfg = [P |-> P, Q |-> Q, ra |-> ra, nr |-> nr, za |-> za, nz |-> nz, miss |-> {},
                  rdrop |-> -2, edrop |-> -2, slip |-> -1]
        /\ in = NoInput

Pick ==
    /\ in = NoInput
    /\ \E miss \in Blocks(cfg.nz), rdrop \in {-1} \cup (1..(cfg.nr - 2)),
          edrop \in {-1, 0, 1, cfg.nr - 1, cfg.nr}, slip \in {-1} \cup (2..(cfg.nz - 2)) :
        /\ Cardinality((0..(cfg.nz - 1)) \ miss) >= 2
        /\ slip >= 1 => (miss = {} /\ rdrop = -1 /\ edrop = -1 /\ cfg.Q >= 2)    \* one irregularity at a time
        /\ cfg' = [cfg EXCEPT !.miss = miss, !.rdrop = rdrop, !.edrop = edrop, !.slip = slip]
        /\ in' = [rain |-> RainRows(cfg.P, cfg.ra, cfg.nr, rdrop),
                  et   |-> EtRows(cfg.P, cfg.ra - cfg.P, cfg.nr + 3, IF edrop = -1 THEN -1 ELSE edrop + 1),
                  lev  |-> LevRows(cfg.Q, cfg.za, cfg.nz, miss, slip)]

Next == Pick \/ (in # NoInput /\ UNCHANGED vars)
Spec == Init /\ [][Next]_vars

Ready == in # NoInput
Inv_Boundaries == Ready => BoundariesEqualDeclarative(in)
Inv_GridUniform == Ready => GridUniform(in)
Inv_NoLevelInsideGap == Ready => NoLevelInsideGap(in)
Inv_DistinctLabels == Ready => DistinctLabelsAcrossGaps(in)
Inv_LevelBracketed == Ready => LevelBracketed(in)
Inv_LevelWhereverDefined ==
    (Ready /\ Refusal(in) = "none") =>
      {r[1] : r \in Result(in).level} = {g \in GridCore(in) : ~InGap(in, g)}

EmitInv == (Emit /\ Ready) => PrintT("EMIT " \o ToJson([in |-> in, cfg |-> cfg, out |-> Result(in)]))
=============================================================================
