----------------------------- MODULE TraceShift -----------------------------
(***************************************************************************)
(* C07: results do not depend on the time origin.  A case holds the        *)
(* projections of two (or more) real executions of the whole workflow on   *)
(* the SAME abstract record presented at different time origins / in       *)
(* different fixed-offset zones.  Each projection is already expressed in  *)
(* origin-free terms (sample indices instead of epochs); curve values are  *)
(* carried as hexadecimal floating-point strings, which TLC compares       *)
(* without decoding.  The relation of C07 is then plain equality, field by *)
(* field, of every run with the first one.                                 *)
(***************************************************************************)
EXTENDS Integers, Sequences, TLC, Json, IOUtils

Cases == JsonDeserialize(IOEnv.TRACE_FILE)
VARIABLES i, ok
Fields == <<"status", "flags", "storm", "rise", "pair", "inter", "recession_curve", "rise_curve",
            "recession_members", "rise_members">>

(* the same judge serves C08 (presentations of one collection of pieces): c.prop names the
   property, c.between what was varied *)
Fail(c, r, f) == PrintT("FAIL " \o ToJson([id |-> c.id, stretch |-> r, clause |-> c.prop \o " " \o f \o " differs between " \o c.between]))
Judge(c) ==
    \A r \in 2..Len(c.runs) :
        \A k \in 1..Len(Fields) :
            IF c.runs[r][Fields[k]] = c.runs[1][Fields[k]] THEN TRUE ELSE Fail(c, r, Fields[k])

Init == i = 1 /\ ok = TRUE
Next == i <= Len(Cases) /\ ok' = Judge(Cases[i]) /\ i' = i + 1
Spec == Init /\ [][Next]_<<i, ok>>
AllConsumed == TLCGet("stats").diameter - 1 = Len(Cases) \/ Len(Cases) = 0
=============================================================================
