------------------------------ MODULE TwoFiles ------------------------------
(***************************************************************************)
(* Two dataset files used in turn by interleaved commands (growth item:    *)
(* per-file isolation).  Each file is an instance of Spowtd.tla; a step of *)
(* the system is a step of one file and leaves the other unchanged.  The   *)
(* content of each file is then a function of the steps completed ON THAT  *)
(* FILE only (Confluent per instance): no command leaks state through the  *)
(* process, a module-level cache or the working directory.                 *)
(***************************************************************************)
CONSTANTS ClsArgs, GridArgs, CurvArgs, Refs, NW
VARIABLES diskA, txnA, lastA, diskB, txnB, lastB

A == INSTANCE Spowtd WITH disk <- diskA, txn <- txnA, last <- lastA
B == INSTANCE Spowtd WITH disk <- diskB, txn <- txnB, last <- lastB

Init == A!Init /\ B!Init
Next == \/ (A!Next /\ UNCHANGED <<diskB, txnB, lastB>>)
        \/ (B!Next /\ UNCHANGED <<diskA, txnA, lastA>>)
Spec == Init /\ [][Next]_<<diskA, txnA, lastA, diskB, txnB, lastB>>

Isolated == A!Confluent /\ B!Confluent /\ A!NoMixture /\ B!NoMixture
=============================================================================
