----------------------------- MODULE MCClassify -----------------------------
(***************************************************************************)
(* `spowtd classify` over ALL small records: every sequence of 1..MaxStr   *)
(* gap-free stretches, each of 1..N samples (N1 when alone, N2 when there  *)
(* are two), rain values in RainVals, increments in IncVals.  The command  *)
(* processes the stretches in order; on each it computes flags and         *)
(* interstorm intervals and runs the arbitration loop (every order of      *)
(* proposals is explored).  `out` accumulates the per-stretch tables.      *)
(***************************************************************************)
EXTENDS Classify, TLC, Json

CONSTANTS N1, N2, RainVals, IncVals, S, J, Emit

VARIABLES rec, cur, L, out

\* alphabets for configs (a cfg file cannot write negative numbers)
IncFallFlatAtFast == {-1, 0, J, J + 1}
IncFlatFast == {0, J + 1}
IncFallFast == {-1, J + 1}
IncFallAtFast == {-1, J, J + 1}
vars == <<rec, cur, L, out>>

StretchesOfLen(m) ==
    {[rain |-> r, inc |-> i] : r \in [1..m -> RainVals], i \in [1..(m - 1) -> IncVals]}

Cur == rec[cur]
CurInst == Instance(Cur, S, J)
Picked == cur >= 1
Done == cur > Len(rec)

StartL(r, c) == IF c > Len(r) THEN <<>> ELSE LoopInit(Instance(r[c], S, J))

(* two phases so that TLC's workers share the enumeration: Init fixes the    *)
(* stretch lengths and the rain of the first stretch (cur = 0: not all      *)
(* chosen yet), Pick chooses the increments and the second stretch          *)
Zeros(m) == [k \in 1..m |-> 0]
Init ==
    /\ \/ \E m \in 1..N1 : \E r \in [1..m -> RainVals] : rec = <<[rain |-> r, inc |-> <<>>]>>
       \/ \E m1 \in 1..N2, m2 \in 1..N2 : \E r \in [1..m1 -> RainVals] :
             rec = <<[rain |-> r, inc |-> <<>>], [rain |-> Zeros(m2), inc |-> <<>>]>>
    /\ cur = 0
    /\ out = <<>>
    /\ L = <<>>

Pick ==
    /\ cur = 0
    /\ \E i1 \in [1..(Len(rec[1].rain) - 1) -> IncVals] :
         LET first == [rain |-> rec[1].rain, inc |-> i1] IN
         IF Len(rec) = 1
         THEN rec' = <<first>> /\ L' = StartL(<<first>>, 1)
         ELSE \E second \in StretchesOfLen(Len(rec[2].rain)) :
                 rec' = <<first, second>> /\ L' = StartL(<<first, second>>, 1)
    /\ cur' = 1
    /\ UNCHANGED out

(* one iteration of find_stable_matching on the current stretch *)
LoopStep ==
    /\ Picked /\ ~Done
    /\ ~LoopDone(L)
    /\ L' \in LoopSteps(CurInst, L)
    /\ UNCHANGED <<rec, cur, out>>

(* the loop is over: write this stretch's rows, go to the next stretch *)
FinishStretch ==
    /\ Picked /\ ~Done
    /\ LoopDone(L)
    /\ out' = Append(out, Tables(Cur, S, J, L.M))
    /\ cur' = cur + 1
    /\ L' = StartL(rec, cur + 1)
    /\ UNCHANGED rec

Finished == Picked /\ Done /\ UNCHANGED vars

Next == Pick \/ LoopStep \/ FinishStretch \/ Finished
Spec == Init /\ [][Next]_vars /\ WF_vars(Pick) /\ WF_vars(LoopStep) /\ WF_vars(FinishStretch)

----------------------------------------------------------------------------
(* C01 *)
OneToOne == (Picked /\ ~Done) => IsMatching(L.M, CurInst.E)
LoopInvariant == (Picked /\ ~Done) => LoopInv(CurInst, L)
Progress == (Picked /\ ~Done /\ ~LoopDone(L)) => LoopSteps(CurInst, L) # {}
Termination == <>(Picked /\ Done)
(* a rise and an interstorm interval never start at the same sample, two   *)
(* recorded storms never share a start: the keys of the tables are unique  *)
KeysUnique ==
    \A k \in 1..Len(out) :
        LET t == out[k] IN
        /\ \A a, b \in t.storm : a[1] = b[1] => a = b
        /\ \A a, b \in t.rise \cup t.inter : a[1] = b[1] => a = b
        /\ \A a, b \in t.pair : (a[1] = b[1] \/ a[2] = b[2]) => a = b
(* C02 *)
StableAtEnd == (Picked /\ ~Done /\ LoopDone(L)) => NoBlockingPair(L.M, CurInst)
OptimalAtEnd == (Picked /\ ~Done /\ LoopDone(L) /\ NoTies(CurInst)) => IsStormOptimal(L.M, CurInst)
(* C03 / C04: the algorithms equal the definitions *)
AlgorithmsEqualDefinitions ==
    Picked => \A k \in 1..Len(rec) :
        /\ MasksEqualRuns(rec[k], S, J)
        /\ OnlineEqualsDeclarative(rec[k], J)
(* C04: recorded interstorm intervals have >= 2 samples, are rain free, have
   rain before them, and are maximal *)
InterstormsSound ==
    \A k \in 1..Len(out) : \A az \in out[k].inter :
        /\ az[2] > az[1]
        /\ \A i \in az[1]..az[2] : ~Wet(rec[k], i)
        /\ \E q \in 1..(az[1] - 1) : Wet(rec[k], q)
        /\ \A i \in (az[1] + 1)..az[2] : ~IsJumpAt(rec[k], J, i)

EmitInv ==
    (Emit /\ Picked /\ Done) => PrintT("EMIT " \o ToJson([rec |-> rec, out |-> out]))
=============================================================================
