----------------------------- MODULE MCMatching -----------------------------
(***************************************************************************)
(* Exhaustive exploration of the arbitration loop over ALL abstract        *)
(* instances: every bipartite candidate graph on NS storms x NR rises,     *)
(* every duration-difference and start-offset assignment in 0..MaxPref     *)
(* (ties included), every order in which storms are taken from the pool    *)
(* and every choice among tied best candidates.                            *)
(*                                                                         *)
(* Family "geo" (Geo = TRUE): storms and rises are intervals (start, len)  *)
(* and dur / off are DERIVED from them as the code derives them, so the    *)
(* preference construction of disambiguate_matching is bound as well.      *)
(***************************************************************************)
EXTENDS Matching, TLC, Json

CONSTANTS NS, NR, MaxPref, Geo, MaxStart, MaxLen, Emit

VARIABLES inst, geo, L
vars == <<inst, geo, L>>

Storm == 1..NS
Rise  == 101..(100 + NR)      \* disjoint ids so that a mix-up is visible

Abs(x) == IF x < 0 THEN -x ELSE x

(* geometric family: storm s has (start, len), rise r has (start, len);    *)
(* starts distinct on each side (the code keys intervals by their start)   *)
GeoShapes(Ids) ==
    {g \in [Ids -> (0..MaxStart) \X (1..MaxLen)] :
        \A a, b \in Ids : a # b => g[a][1] # g[b][1]}

GeoInst(gs, gr, E) ==
    [E   |-> E,
     dur |-> [e \in E |-> Abs(gs[e[1]][2] - gr[e[2]][2])],
     off |-> [e \in E |-> Abs(gr[e[2]][1] - gs[e[1]][1])]]

Init ==
    IF Geo
    THEN \E gs \in GeoShapes(Storm), gr \in GeoShapes(Rise), E \in SUBSET (Storm \X Rise) :
            /\ geo = [s |-> gs, r |-> gr]
            /\ inst = GeoInst(gs, gr, E)
            /\ L = LoopInit(inst)
    ELSE \E E \in SUBSET (Storm \X Rise) :
           \E d \in [E -> 0..MaxPref], o \in [E -> 0..MaxPref] :
            /\ geo = <<>>
            /\ inst = [E |-> E, dur |-> d, off |-> o]
            /\ L = LoopInit(inst)

Step ==
    /\ ~LoopDone(L)
    /\ L' \in LoopSteps(inst, L)
    /\ UNCHANGED <<inst, geo>>

Finished == LoopDone(L) /\ UNCHANGED vars

Next == Step \/ Finished

Spec == Init /\ [][Next]_vars /\ WF_vars(Step)

----------------------------------------------------------------------------
TypeOK == IsMatching(L.M, inst.E)
LoopInvariant == LoopInv(inst, L)
(* C01: one-to-one, only candidates *)
OneToOne == IsMatching(L.M, inst.E)
(* C02 *)
StableAtEnd == LoopDone(L) => NoBlockingPair(L.M, inst)
OptimalAtEnd == (LoopDone(L) /\ NoTies(inst)) => IsStormOptimal(L.M, inst)
(* a maximality consequence: a storm left unmatched has proposed to all    *)
(* of its candidates, each of which is matched to somebody it likes at     *)
(* least as much                                                           *)
UnmatchedExhausted ==
    LoopDone(L) => \A s \in StormsOf(inst.E) :
        ~StormMatched(L.M, s) => L.rem[s] = {}
(* never deadlocks before the pool is empty: Step is enabled whenever      *)
(* ~LoopDone (checked as an invariant: a successor exists)                 *)
Progress == ~LoopDone(L) => LoopSteps(inst, L) # {}
Termination == <>LoopDone(L)

EmitInv ==
    (Emit /\ LoopDone(L)) =>
        PrintT("EMIT " \o ToJson([E |-> inst.E,
                                  dur |-> {<<e, inst.dur[e]>> : e \in inst.E},
                                  off |-> {<<e, inst.off[e]>> : e \in inst.E},
                                  geo |-> geo,
                                  M |-> L.M,
                                  ties |-> ~NoTies(inst)]))
=============================================================================
