-------------------------------- MODULE Load --------------------------------
(***************************************************************************)
(* What `spowtd load` must store (spowtd/load.py), on an integer timeline. *)
(*                                                                         *)
(* An input is a record                                                    *)
(*   [rain |-> set of <<t, v>>, et |-> set of <<t, v>>, lev |-> set of <<t, v>>] *)
(* (one row per timestamp, any order in the files).  Part 1 is declarative *)
(* (the wording of C10 / C11), part 2 transcribes the code's construction  *)
(* of labelled valid intervals.                                            *)
(***************************************************************************)
EXTENDS Integers, Sequences, FiniteSets

Times(rows) == {r[1] : r \in rows}
ValAt(rows, t) == (CHOOSE r \in rows : r[1] = t)[2]
MinS(X) == CHOOSE x \in X : \A y \in X : x <= y
MaxS(X) == CHOOSE x \in X : \A y \in X : y <= x
Succ(X, x) == MinS({y \in X : y > x})            \* next element of X after x
Consecutive(X) == {ab \in X \X X : ab[1] < ab[2] /\ ~\E c \in X : ab[1] < c /\ c < ab[2]}
Diffs(X) == {ab[2] - ab[1] : ab \in Consecutive(X)}

(* C10: the rainfall timestamps lying within the span of the level record *)
GridCore(in) ==
    LET lt == Times(in.lev) IN {t \in Times(in.rain) : MinS(lt) <= t /\ t <= MaxS(lt)}

Uniform(in) == Cardinality(Diffs(GridCore(in))) = 1
Step(in) == CHOOSE d \in Diffs(GridCore(in)) : TRUE
Closing(in) == MaxS(GridCore(in)) + Step(in)
Grid(in) == GridCore(in) \cup {Closing(in)}

(* C11: refusals.  (A level record of fewer than two rows is outside the   *)
(* model: the code cannot determine its step.)                             *)
Refusal(in) ==
    IF ~Uniform(in) THEN "nonuniform"
    ELSE IF \E g \in Grid(in) : g \notin Times(in.et) THEN "missing_et"
    ELSE "none"

(* C10: gaps of the level record = consecutive measurements further apart  *)
(* than the record's own step (its smallest spacing)                       *)
SourceStep(in) == MinS(Diffs(Times(in.lev)))
Gaps(in) == {ab \in Consecutive(Times(in.lev)) : ab[2] - ab[1] > SourceStep(in)}
InGap(in, g) == \E ab \in Gaps(in) : ab[1] < g /\ g < ab[2]

(* labels: 0 = none (inside a gap); otherwise 1 + number of gaps that end   *)
(* at or before g -- distinct across gaps, constant between them           *)
Label(in, g) == IF InGap(in, g) THEN 0 ELSE 1 + Cardinality({ab \in Gaps(in) : ab[2] <= g})

(* exact linear interpolation between the two measurements that bracket g, *)
(* as a rational <<num, den>>                                              *)
Interp(in, g) ==
    LET lt == Times(in.lev) IN
    IF g \in lt THEN <<ValAt(in.lev, g), 1>>
    ELSE LET a == MaxS({t \in lt : t < g})
             b == MinS({t \in lt : t > g})
         IN  <<ValAt(in.lev, a) * (b - a) + (g - a) * (ValAt(in.lev, b) - ValAt(in.lev, a)), b - a>>

HasLevel(in, g) == g \in GridCore(in) /\ ~InGap(in, g)

Result(in) ==
    IF Refusal(in) # "none"
    THEN [refused |-> Refusal(in)]
    ELSE [refused |-> "none",
          step  |-> Step(in),
          grid  |-> {<<g, Label(in, g)>> : g \in Grid(in)},
          rain  |-> {<<g, g + Step(in), ValAt(in.rain, g)>> : g \in GridCore(in)},
          et    |-> {<<g, g + Step(in), ValAt(in.et, g)>> : g \in GridCore(in)},
          level |-> {<<g, Interp(in, g)>> : g \in {x \in GridCore(in) : ~InGap(in, x)}}]

(***************************************************************************)
(* Part 2: populate_water_level's construction.  valid_boundaries =        *)
(* [grid[0]] + (both ends of every gap) + [grid[-1]]; consecutive pairs    *)
(* are closed intervals labelled 1, 2, ...; a grid instant gets the label  *)
(* of the (last) interval containing it.                                   *)
(***************************************************************************)
SortedSeq(X) ==
    LET f[n \in 0..Cardinality(X)] ==
          IF n = 0 THEN <<>>
          ELSE LET prev == f[n - 1]
                   rest == X \ {prev[k] : k \in 1..Len(prev)}
               IN  Append(prev, MinS(rest))
    IN  f[Cardinality(X)]

CodeLabels(in) ==
    LET gaps == SortedSeq({ab[1] : ab \in Gaps(in)})
        n == Len(gaps)
        lt == Times(in.lev)
        bounds == [k \in 1..(2 * n + 2) |->
                     IF k = 1 THEN MinS(Grid(in))
                     ELSE IF k = 2 * n + 2 THEN MaxS(Grid(in))
                     ELSE IF k % 2 = 0 THEN gaps[k \div 2]
                     ELSE Succ(lt, gaps[(k - 1) \div 2])]
        labelOf(g) == LET hits == {q \in 1..(n + 1) : bounds[2 * q - 1] <= g /\ g <= bounds[2 * q]}
                      IN  IF hits = {} THEN 0 ELSE MaxS(hits)
    IN  {<<g, labelOf(g)>> : g \in Grid(in)}

BoundariesEqualDeclarative(in) ==
    Refusal(in) = "none" => CodeLabels(in) = {<<g, Label(in, g)>> : g \in Grid(in)}

(* C10 consequences, stated as checkable predicates on Result *)
GridUniform(in) ==
    Refusal(in) = "none" => Diffs(Grid(in)) = {Step(in)}
NoLevelInsideGap(in) ==
    Refusal(in) = "none" => \A r \in Result(in).level : ~InGap(in, r[1])
DistinctLabelsAcrossGaps(in) ==
    Refusal(in) = "none" =>
      \A g1, g2 \in Grid(in) :
        (g1 < g2 /\ Label(in, g1) # 0 /\ Label(in, g2) # 0) =>
          ((Label(in, g1) = Label(in, g2)) <=> ~\E ab \in Gaps(in) : g1 <= ab[1] /\ ab[2] <= g2)
LevelBracketed(in) ==
    Refusal(in) = "none" =>
      \A r \in Result(in).level :
        LET lt == Times(in.lev)
            lo == MaxS({t \in lt : t <= r[1]})
            hi == MinS({t \in lt : t >= r[1]})
            vlo == ValAt(in.lev, lo)
            vhi == ValAt(in.lev, hi)
        IN  \* the interpolated value lies between the bracketing measurements
            /\ r[2][1] >= (IF vlo < vhi THEN vlo ELSE vhi) * r[2][2]
            /\ r[2][1] <= (IF vlo < vhi THEN vhi ELSE vlo) * r[2][2]
=============================================================================
