------------------------------- MODULE TracePest -------------------------------
(* C19, code -> specification: the generated files, parsed by a plain parser, are
   judged against the relation of Pest.tla.  Kind "files": a full set of artefacts;
   kind "width": one value printed by the real simulator (its text length). *)
EXTENDS Pest, Json, IOUtils
Cases == JsonDeserialize(IOEnv.TRACE_FILE)
VARIABLES ci, ok
Fail(c, clause, w) == PrintT("FAIL " \o ToJson([id |-> c.id, stretch |-> w, clause |-> clause]))
Chk(cond, c, clause, w) == IF cond THEN TRUE ELSE Fail(c, clause, w)

JudgeFiles(c) ==
    /\ Chk(CountsMatch(c), c, "C19 declared counts of the control file do not match its parameter / observation lines", 0)
    /\ Chk(NamesMatch(c), c, "C19 parameter names of the control file are not exactly the template's placeholders", 0)
    /\ Chk(GroupsDeclared(c), c, "C19 a group used by a parameter or observation is not declared", 0)
    /\ Chk(ObsAligned(c), c, "C19 observations of the control file and instructions of the instruction file are out of step", 0)
    /\ Chk(ObsAreMeasured(c), c, "C19 an observation value does not read back as the measured master-curve value at that level", 0)
    /\ Chk(SimAligned(c), c, "C19 the simulation output does not have one value per instruction after each marker", 0)
    /\ \A k \in 1..Len(c.sim.lens) : Chk(SimFits(c, k), c, "C19 a simulated value does not fit the columns the instruction file reads", k)
    /\ Chk(SimAtSameLevels(c), c, "C19 the k-th simulated value is not the value at the water level of the k-th observation", 0)
    /\ Chk(TemplateFills(c), c, "C19 filling the template with the original values does not give back the parameter file", 0)
    /\ Chk(ShapeAsExpected(c, c.shape), c, "C19 names / groups / markers differ from the documented structure for this shape", 0)

JudgeWidth(c) == Chk(c.len <= FieldWidth /\ c.start = FieldLo, c, "C19 a simulated value does not fit the columns the instruction file reads", 0)

Judge(c) == IF c.kind = "width" THEN JudgeWidth(c) ELSE JudgeFiles(c)
Init == ci = 1 /\ ok = TRUE
Next == ci <= Len(Cases) /\ ok' = Judge(Cases[ci]) /\ ci' = ci + 1
Spec == Init /\ [][Next]_<<ci, ok>>
AllConsumed == TLCGet("stats").diameter - 1 = Len(Cases) \/ Len(Cases) = 0
=============================================================================
