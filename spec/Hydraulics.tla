----------------------------- MODULE Hydraulics -----------------------------
(***************************************************************************)
(* Hydraulic functions in exact arithmetic (spowtd/spline.py,              *)
(* specific_yield.py, transmissivity.py, simulate_rise.py,                 *)
(* simulate_recession.py).                                                 *)
(*                                                                         *)
(* Specific yield.  f is a polynomial of degree <= 3 with integer          *)
(* coefficients c = <<c0, c1, c2, c3>>; the knots are lattice points       *)
(* (>= 4 of them).  The cubic INTERPOLATING spline through polynomial data *)
(* is that polynomial, so on this family the real SplineSpecificYield is   *)
(* known exactly: f clamped to the knot range, and its integrals.          *)
(* Abscissae are half-integers, carried doubled (x2 = 2x).  Scales:        *)
(*     F8(x2)   = 8 * f(x2/2)                                              *)
(*     P192(x2) = 192 * (antiderivative of f at x2/2, zero at 0)           *)
(*     areas are returned times 192.                                       *)
(***************************************************************************)
EXTENDS Integers, Sequences, FiniteSets, FiniteSetsExt

F8(c, x2) == 8 * c[1] + 4 * c[2] * x2 + 2 * c[3] * x2 * x2 + c[4] * x2 * x2 * x2
P192(c, x2) == 96 * c[1] * x2 + 24 * c[2] * x2 * x2 + 8 * c[3] * x2 * x2 * x2 + 3 * c[4] * x2 * x2 * x2 * x2

Min2(a, b) == IF a < b THEN a ELSE b
Max2(a, b) == IF a < b THEN b ELSE a
Clamp(x2, lo2, hi2) == Max2(lo2, Min2(x2, hi2))

(* C14, declarative: the function is f inside the knot range and constant   *)
(* outside; G is its antiderivative (zero at the lowest knot); the integral *)
(* between any two levels, in either order, is G(b) - G(a)                  *)
Value8(c, lo2, hi2, x2) == F8(c, Clamp(x2, lo2, hi2))
G192(c, lo2, hi2, x2) ==
    IF x2 < lo2 THEN 12 * F8(c, lo2) * (x2 - lo2)
    ELSE IF x2 <= hi2 THEN P192(c, x2) - P192(c, lo2)
    ELSE P192(c, hi2) - P192(c, lo2) + 12 * F8(c, hi2) * (x2 - hi2)
Area192(c, lo2, hi2, a2, b2) == G192(c, lo2, hi2, b2) - G192(c, lo2, hi2, a2)

(* Spline.integrate, transcribed: swap, then three branches.  `splint` is    *)
(* FITPACK's integral of the spline, which takes the spline to be zero      *)
(* outside its knot range: Splint(x, y) = P(clamp y) - P(clamp x).          *)
Splint192(c, lo2, hi2, x2, y2) == P192(c, Clamp(y2, lo2, hi2)) - P192(c, Clamp(x2, lo2, hi2))
RECURSIVE Integrate192(_, _, _, _, _)
Integrate192(c, lo2, hi2, a2, b2) ==
    IF a2 > b2 THEN -Integrate192(c, lo2, hi2, b2, a2)
    ELSE IF a2 = b2 THEN 0
    ELSE (IF a2 < lo2 THEN 12 * Value8(c, lo2, hi2, lo2) * (Min2(lo2, b2) - a2) ELSE 0)
         + (IF b2 > lo2 THEN Splint192(c, lo2, hi2, Max2(a2, lo2), Min2(hi2, b2)) ELSE 0)
         + (IF b2 > hi2 THEN 12 * Value8(c, lo2, hi2, Max2(a2, hi2)) * (b2 - Max2(a2, hi2)) ELSE 0)

(***************************************************************************)
(* C17: the simulated rise curve on a grid (sequence of doubled levels):   *)
(* cumulative integrals cell by cell, then a shift fixing the mean.        *)
(* Cum192[i] = 192 * integral from grid[1] to grid[i].                     *)
(***************************************************************************)
Cum192(c, lo2, hi2, grid) ==
    LET f[i \in 1..Len(grid)] ==
          IF i = 1 THEN 0 ELSE f[i - 1] + Area192(c, lo2, hi2, grid[i - 1], grid[i])
    IN  f
NonNegativeOn(c, lo2, hi2) == \A x2 \in lo2..hi2 : F8(c, x2) >= 0

(***************************************************************************)
(* C15: spline transmissivity on a log2 lattice.  Knots z (integers, mm),  *)
(* conductivities K_i = 2^(e_i), log K linear between knots.  For a level  *)
(* x between knots i and i+1 whose exponent e(x) = e_i + (e_{i+1} - e_i) * *)
(* (x - z_i) / (z_{i+1} - z_i) is an INTEGER,                              *)
(*    T(x) - Tmin = A + B / ln 2,                                          *)
(*    A = sum over flat segments of K * length,                            *)
(*    B = sum over sloping segments of (2^e_end - 2^e_start) * dz / de.    *)
(* A and B are returned times Scale = 64 * 24 (exponents >= -6, |de| in    *)
(* {1, 2, 3, 4, 6, 8}).                                                    *)
(***************************************************************************)
Scale == 64 * 24
Pow2x64(e) ==      \* 64 * 2^e for e in -6..16
    LET RECURSIVE p(_)
        p(k) == IF k = 0 THEN 1 ELSE 2 * p(k - 1)
    IN  p(e + 6)

(* contribution of the part of segment (za, ea) -> (zb, eb) from za up to x  *)
(* (za < x <= zb), where the exponent at x is ex (integer)                  *)
SegA(za, ea, zb, eb, x, ex) == IF ea = eb THEN 24 * Pow2x64(ea) * (x - za) ELSE 0
AbsI(v) == IF v < 0 THEN -v ELSE v
SegB(za, ea, zb, eb, x, ex) ==      \* numerator and denominator have the same sign
    IF ea = eb THEN 0
    ELSE (24 * AbsI(Pow2x64(ex) - Pow2x64(ea)) * (zb - za)) \div AbsI(eb - ea)
ExpAt(za, ea, zb, eb, x) ==
    IF eb >= ea THEN ea + ((eb - ea) * (x - za)) \div (zb - za)
    ELSE ea - ((ea - eb) * (x - za)) \div (zb - za)
ExpIntegral(za, ea, zb, eb, x) == (AbsI(eb - ea) * (x - za)) % (zb - za) = 0
DivisibleB(za, ea, zb, eb, x) ==      \* (IF, not \/: this is evaluated inside an action)
    IF ea = eb THEN TRUE
    ELSE (24 * AbsI(Pow2x64(ExpAt(za, ea, zb, eb, x)) - Pow2x64(ea)) * (zb - za)) % AbsI(eb - ea) = 0

(* <<A, B>> times Scale at level x, for knots z / exponents e (sequences)   *)
TAB(z, e, x) ==
    LET n == Len(z)
        f[i \in 1..n] ==     \* <<A, B>> accumulated up to min(x, z[i])
          IF i = 1 THEN <<0, 0>>
          ELSE IF x <= z[i - 1] THEN f[i - 1]
          ELSE LET top == Min2(x, z[i])
                   et == ExpAt(z[i - 1], e[i - 1], z[i], e[i], top)
               IN  <<f[i - 1][1] + SegA(z[i - 1], e[i - 1], z[i], e[i], top, et),
                     f[i - 1][2] + SegB(z[i - 1], e[i - 1], z[i], e[i], top, et)>>
    IN  f[n]
Evaluable(z, e, x) ==      \* every partial segment ends at an integral exponent, B divides
    \A i \in 2..Len(z) :
        x > z[i - 1] =>
          LET top == Min2(x, z[i]) IN
          /\ ExpIntegral(z[i - 1], e[i - 1], z[i], e[i], top)
          /\ DivisibleB(z[i - 1], e[i - 1], z[i], e[i], top)
=============================================================================
