#!/usr/bin/env python3
"""Confirm a seeded change and run checks against it.

  tools/seed.py confirm <name> <worktree> <outdir>      demo fails with / passes without, tests pass with
  tools/seed.py run <name> <check> [<check> ...]        apply seeded/<name>/patch.diff to /repo, run quick checks, undo
  tools/seed.py runwt <name> <check> [<check> ...]      same, but in a scratch worktree of /repo (SPOWTD_REPO=<worktree>):
                                                        /repo is not touched, several seeds can be judged at once;
                                                        evidence/ and replays/ are redirected to a scratch directory
"""
import json
import os
import shutil
import subprocess
import sys
import time

VERIF = os.path.dirname(os.path.dirname(os.path.abspath(__file__)))
PY = "/venv/bin/python"


def sh(cmd, cwd=None, env=None, timeout=3600):
    e = dict(os.environ)
    if env:
        e.update(env)
    p = subprocess.run(cmd, shell=True, cwd=cwd, env=e, capture_output=True, text=True, timeout=timeout)
    return p.returncode, p.stdout + p.stderr


def confirm(name, wt, out):
    dst = os.path.join(VERIF, "seeded", name)
    os.makedirs(dst, exist_ok=True)
    rc, diff = sh("git diff", cwd=wt)
    assert diff.strip(), "no change in worktree"
    env = {"PYTHONPATH": wt, "PYTHONDONTWRITEBYTECODE": "1"}
    demo = os.path.join(out, "demo.py")
    rc_with, o_with = sh("%s %s" % (PY, demo), cwd=out, env=env)
    rc_t, o_t = sh("%s -m pytest -q -p no:cacheprovider -n 8 2>&1 | tail -4" % PY, cwd=wt)
    # (not `git stash`: the stash is shared between worktrees)
    tmp_patch = os.path.join(out, ".confirm.patch")
    with open(tmp_patch, "w") as f:
        f.write(diff)
    sh("git checkout -- .", cwd=wt)
    try:
        rc_without, o_without = sh("%s %s" % (PY, demo), cwd=out, env=env)
    finally:
        sh("git apply %s" % tmp_patch, cwd=wt)
        os.unlink(tmp_patch)
    ok = rc_with != 0 and rc_without == 0 and "54 passed" in o_t
    print("demo with change: rc=%d  %s" % (rc_with, o_with.strip().splitlines()[-1:] ))
    print("demo without   : rc=%d  %s" % (rc_without, o_without.strip().splitlines()[-1:]))
    print("tests with change:", o_t.strip().splitlines()[-1:])
    print("CONFIRMED" if ok else "NOT CONFIRMED")
    if ok:
        with open(os.path.join(dst, "patch.diff"), "w") as f:
            f.write(diff)
        shutil.copy(demo, os.path.join(dst, "demo.py"))
        notes = os.path.join(out, "notes.md")
        if os.path.exists(notes):
            shutil.copy(notes, os.path.join(dst, "notes.md"))
        meta = {"name": name, "confirmed": time.strftime("%Y-%m-%d %H:%M"),
                "demo_with_change_rc": rc_with, "demo_without_change_rc": rc_without,
                "tests_with_change": o_t.strip().splitlines()[-1:], "ran": [
                    "PYTHONPATH=<worktree> python demo.py (with and without the change)",
                    "python -m pytest -q -n 8 in the worktree with the change"],
                "property": name.split("-")[0], "needs": "see notes.md", "detected_by": {}}
        with open(os.path.join(dst, "meta.json"), "w") as f:
            json.dump(meta, f, indent=1)
    return 0 if ok else 1


def run(name, checks, tier="quick"):
    dst = os.path.join(VERIF, "seeded", name)
    patch = os.path.join(dst, "patch.diff")
    rc, o = sh("git status --porcelain", cwd="/repo")
    assert not o.strip(), "/repo not clean: " + o
    rc, o = sh("git apply %s" % patch, cwd="/repo")
    assert rc == 0, o
    results = {}
    try:
        for c in checks:
            t = time.time()
            rc, o = sh("bin/check %s --tier %s" % (c, tier), cwd=VERIF)
            lines = [l for l in o.splitlines() if l.startswith("VIOLATION") or l.startswith("  ")][:4]
            results[c] = {"exit": rc, "wall_s": round(time.time() - t, 1), "first": lines}
            print(c, "exit", rc, "%.0fs" % (time.time() - t), lines[:2])
    finally:
        sh("git checkout -- .", cwd="/repo")
        sh("rm -f %s/replays/*.json" % VERIF)
    meta_p = os.path.join(dst, "meta.json")
    meta = json.load(open(meta_p))
    meta.setdefault("detected_by", {}).update({c: ("DETECTED" if r["exit"] == 1 else "missed (exit %d)" % r["exit"]) for c, r in results.items()})
    meta.setdefault("runs", []).append({"when": time.strftime("%Y-%m-%d %H:%M"), "tier": tier, "results": results})
    json.dump(meta, open(meta_p, "w"), indent=1)
    return 0


def runwt(name, checks, tier="quick"):
    """as run(), against a scratch worktree of /repo's HEAD with the patch applied"""
    import tempfile
    dst = os.path.join(VERIF, "seeded", name)
    patch = os.path.join(dst, "patch.diff")
    wt = tempfile.mkdtemp(prefix="seedwt_" + name + "_", dir="/tmp")
    os.rmdir(wt)
    scratch = tempfile.mkdtemp(prefix="seedev_" + name + "_", dir="/tmp")
    rc, o = sh("git worktree add --detach %s HEAD" % wt, cwd="/repo")
    assert rc == 0, o
    results = {}
    try:
        rc, o = sh("git apply %s" % patch, cwd=wt)
        assert rc == 0, o
        for c in checks:
            t = time.time()
            rc, o = sh("bin/check %s --tier %s" % (c, tier), cwd=VERIF,
                       env={"SPOWTD_REPO": wt, "VERIF_EVIDENCE_DIR": scratch, "VERIF_REPLAY_DIR": scratch})
            lines = [l for l in o.splitlines() if l.startswith("VIOLATION") or l.startswith("  ")][:4]
            results[c] = {"exit": rc, "wall_s": round(time.time() - t, 1), "first": lines}
            print(name, c, "exit", rc, "%.0fs" % (time.time() - t), lines[:2])
            if rc not in (0, 1):
                print(o[-1500:])
    finally:
        sh("git worktree remove --force %s" % wt, cwd="/repo")
        shutil.rmtree(scratch, ignore_errors=True)
    meta_p = os.path.join(dst, "meta.json")
    meta = json.load(open(meta_p))
    meta.setdefault("detected_by", {}).update({c: ("DETECTED" if r["exit"] == 1 else "missed (exit %d)" % r["exit"]) for c, r in results.items()})
    meta.setdefault("runs", []).append({"when": time.strftime("%Y-%m-%d %H:%M"), "tier": tier, "where": "scratch worktree", "results": results})
    json.dump(meta, open(meta_p, "w"), indent=1)
    return 0


def run_all():
    """regression: every seeded change against the check of its own property"""
    import glob
    missed = []
    for d in sorted(glob.glob(os.path.join(VERIF, "seeded", "*", "meta.json"))):
        m = json.load(open(d))
        name, prop = m["name"], m["property"][:3]
        run(name, [prop])
        m = json.load(open(d))
        if m["detected_by"].get(prop) != "DETECTED":
            missed.append(name)
    print("MISSED:", missed if missed else "none")
    return 1 if missed else 0


if __name__ == "__main__":
    if sys.argv[1] == "all":
        sys.exit(run_all())
    if sys.argv[1] == "confirm":
        sys.exit(confirm(*sys.argv[2:5]))
    tier = "quick"
    args = sys.argv[3:]
    if "--thorough" in args:
        args.remove("--thorough"); tier = "thorough"
    if sys.argv[1] == "runwt":
        sys.exit(runwt(sys.argv[2], args, tier))
    sys.exit(run(sys.argv[2], args, tier))
