#!/usr/bin/env python3
"""Which seeded changes do the repository's OWN test executions expose once every dataset they leave behind is
judged by the trace specifications (bin/check TT)?  Writes seeded/TT_results.json."""
import glob
import json
import os
import subprocess
import sys
import time

VERIF = os.path.dirname(os.path.dirname(os.path.abspath(__file__)))


def sh(cmd, cwd):
    p = subprocess.run(cmd, shell=True, cwd=cwd, capture_output=True, text=True)
    return p.returncode, p.stdout + p.stderr


def main():
    out = {}
    only = sys.argv[1:]
    for d in sorted(glob.glob(os.path.join(VERIF, "seeded", "*", "patch.diff"))):
        name = os.path.basename(os.path.dirname(d))
        if only and not any(name.startswith(o) for o in only):
            continue
        rc, o = sh("git status --porcelain", "/repo")
        assert not o.strip(), "/repo not clean"
        rc, o = sh("git apply %s" % d, "/repo")
        assert rc == 0, o
        try:
            t = time.time()
            rc, o = sh("bin/check TT --tier quick", VERIF)
            lines = [l.strip() for l in o.splitlines() if l.startswith("  TLC rejects")]
            suite = [l for l in o.splitlines() if "passed" in l][-1:]
            out[name] = {"exit": rc, "wall_s": round(time.time() - t), "first": lines[:2]}
            print(name, rc, lines[:1], flush=True)
        finally:
            sh("git checkout -- .", "/repo")
    path = os.path.join(VERIF, "seeded", "TT_results.json")
    old = json.load(open(path)) if os.path.exists(path) else {}
    old.update(out)
    json.dump(old, open(path, "w"), indent=1, sort_keys=True)


if __name__ == "__main__":
    main()
