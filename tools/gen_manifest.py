#!/usr/bin/env python3
"""Regenerates /verif/MANIFEST.json from the table below (one source of truth)."""
import json
import os

VERIF = os.path.dirname(os.path.dirname(os.path.abspath(__file__)))
TB = ("Trusted: TLC, the lattice presentation (binary-fraction values so that float comparisons are exact), "
      "Python's sqlite3 module. ")
TECH = "TLA+ model checking (TLC) + spec->code replay + code->spec trace validation"

CHECKS = {
 "C01": ("TLC explores MCClassify.tla exhaustively over all records up to the stated size and every proposal order (termination, one-to-one, only overlapping candidates, unique table keys as invariants / liveness); every enumerated record is replayed into the real load+classify and must complete and commit exactly one of the table sets the specification allows; random long multi-gap records and the field datasets at a threshold sweep are judged by TLC from recorded traces. Small-scope exhaustive plus sampled large scope: the right level for a for-all-inputs totality claim on a 600-line classifier.",
         TB + "Totality for thresholds is by equivalence class (below / at / above).", TECH, "4/C01"),
 "C02": ("TLC explores MCMatching.tla over every candidate graph, preference assignment (ties included) and proposal order: NoBlockingPair, storm-optimality under no ties, termination; every instance is replayed into the real find_stable_matching under relabelings and insertion orders, a geometric family into disambiguate_matching, contended records into load+classify; recorded matchings on random and field data are judged by TLC (no blocking pair; storm-optimal on every small tie-free component).",
         TB + "With ties only the property's own predicate and membership in the specification's reachable terminal set are judged.", TECH, "4/C02"),
 "C03": ("TLC checks that the mask / cumsum transcription equals the declarative maximal-run definition on all records over an alphabet containing AT-threshold classes; each record is replayed through load+classify and the committed storm, rise and depth rows must equal the specification's; field data judged per step in fixed point.",
         TB + "Fixed-point comparisons within 2 units of a threshold take the exact double comparison recorded in the trace.", TECH, "4/C03"),
 "C04": ("TLC checks online mystery-jump machine = declarative clean-dry definition on all small records; each record is replayed through load+classify and the committed flags and interstorm intervals must equal the specification's; on the field datasets every one of the ~2*10^4 per-sample flags and every interval is judged by TLC, one state per sample.",
         TB + "At-threshold increments only with binary-fraction step lengths (the origin dependence on other steps is C07).", TECH, "4/C04"),
 "C09": ("RefLevel.tla states on-grid-ness and the level index in exact rational arithmetic; TLC enumerates (step in {1,0.5,0.1,0.2,0.3,2.5,5} mm, dataset offset, k, fraction) with the verdict; per (step, offset) a lattice dataset built from a Hydro.tla behaviour is loaded, classified and gridded through the CLI and every reference inside the curve is typed as its exact decimal string into `rise -r` and `recession -r`: accepted references must make the master curve zero at that level, off-grid ones must be refused leaving the dataset unchanged, and without -r the highest level is the origin.",
         TB + "References outside the assembled curve are not judged (the code raises KeyError there; the property speaks of multiples of the step, the curve's extent is a different matter).", "TLA+ enumeration of exact-rational cases (TLC) + replay through the CLI", "4/C09"),
 "C10": ("TLC enumerates every input triple of MCLoad.tla (steps, offsets, row counts, up to two blocks of missing level rows) checking transcription = declarative labels and the C10 consequences as invariants, and emits the expected tables; each acceptable configuration is written as shuffled text files and loaded by the real code (API and CLI), all five tables compared exactly (levels against exact rationals within 1e-9); the field datasets' loads (with and without carved gaps) are validated by TraceLoad.tla, one state per source row / grid instant.",
         TB + "Labels are compared up to an order-preserving renaming; the closing instant is not required to carry a level.", TECH, "4/C10"),
 "C11": ("TLC proves the ValidInstants oracle sound and complete on all abstract zones (<=2 transitions), then computes ValidInstants from zone tables parsed out of pytz's own TZif files for probes around transitions (quick: 24 zones, thorough: all ~600) and the real generate_timestamped_rows must store a member; every configuration Load.tla refuses must raise the matching ValueError; a second load must be refused and leave the logical dump unchanged.",
         TB + "Judged only where every candidate era has a whole-minute offset in the file (pytz rounds offsets to minutes), instants 1902-2037 (32-bit).", TECH, "4/C11"),
 "C05": ("TLC enumerates every collection of 2-4 lattice pieces, proves in exact integer arithmetic that the normal equations have a unique solution, that the solution is stationary (each piece's residuals sum to zero: the characterisation of the minimiser of the convex quadratic) and independent of the pinned piece, and emits the rational optimum; the real get_series_time_offsets must return those offsets, crossings and master values within 1e-9 at several grid steps and abscissa scales; the tables written by rise / recession on synthetic and field datasets are checked for stationarity by TLC in fixed point (TraceCurves, with C06/C13).",
         TB + "Optimality against all real competitor vectors is decided through stationarity + non-zero determinant, not by enumerating competitors.", TECH, "4/C05"),
 "C06": ("TLC explores the planted-truth generator Hydro.tla (Recede / Storm / Drizzle / Gap on a master recession lattice with constant specific yield) and checks on every behaviour that the classifier's definitions (Classify.tla) recover exactly the planted storms, depths and recessions; finished behaviours (exhaustive to depth 4, simulated to depth 12-30, three truths) are written as text files and driven through load, classify, set-zeta-grid, recession, rise via the CLI entry point at three time steps, grid steps and zones; both master curves must equal the truth up to origin and every aligned piece must coincide with the master.",
         TB + "Judged when every level-richest overlap component of the planted pieces has >= 2 pieces (otherwise the commands have nothing to align).", TECH, "4/C06"),
 "C07": ("Abstract records come from TLC (MCClassify records with increments EXACTLY at threshold x step; Hydro.tla behaviours); each is presented at three time origins between 1975 and 2037 shifted by whole steps and in different fixed-offset zones, with 20 / 30 / 60 minute steps, and run through the real load + classify (+ grid, recession, rise); the origin-free projections (flags, intervals, matching, both master curves and member offsets, floats as hex strings) are judged equal by TLC (TraceShift.tla).",
         TB + "Value-level conformance to Classify.tla is asserted only for binary-fraction steps (C01-C04); here only the relation between runs is judged.", "TLA+ trace validation of pairs of real executions (metamorphic relation judged by TLC) over TLC-enumerated records", "4/C07"),
 "C08": ("TLC explores collections including disconnected overlap graphs with re-ordering and axis-shift as actions: the code-shaped component merge equals the declarative components, only and all of the main body is placed, the result is unchanged by the actions and by the pinned piece; every reachable presentation is replayed into the real get_series_time_offsets and must give the specification's members, relative offsets and master curve.",
         TB + "Collections whose level-richest component is not unique or is a single piece are not judged (the code raises ValueError there; whether that violates C08 is ambiguous).", TECH, "4/C08"),
 "C12": ("TLC enumerates every series of 2..5 samples on a half-integer lattice with one-ulp displacement classes and irregular abscissae, checks bracketing / on-the-line / once-per-pair / monotone-once as invariants of Regrid.tla and emits the exact report; every series is presented to the real regrid() and build_head_mapping() at dyadic and non-dyadic steps and at small and UNIX-epoch abscissae: ids must match exactly in order, positions within 1e-9 (1e-5 s at epoch scale).",
         TB + "One-ulp classes only with power-of-two steps; steps 0.1 / 0.3 only with generic-position samples; interpolant other than linear is not modelled.", TECH, "4/C12"),
 "C13": ("After real workflows on Hydro.tla behaviours (three time steps, grid steps 1 / 0.5 / 2 mm) and on the field datasets, the members and *_interval_zeta rows are recorded together with the CLASSIFIED intervals of the right kind and their own samples; TLC (TraceProvenance.tla, re-using Regrid.tla) re-derives every crossing value from the owner's samples (rises: the segment from zero depth at the initial level to the storm's total depth at the final level), checks ownership, levels within the grid, and grid = floor(min/step)..ceil(max/step)-1 without holes.",
         TB + "Exact (1e-5 step) on lattice datasets; on field data single-crossing rows of intervals <= 60 samples at 0.03-step resolution, rise values only loosely (ownership and grid membership exactly).", "TLA+ trace validation (TLC re-derives each stored row from the specification's Regrid operators)", "4/C13"),
 "C14": ("TLC enumerates every cubic polynomial of small integer coefficient sets, knot ranges, and every pair of integration limits plus split point on a half-integer lattice reaching beyond both ends (5.5*10^5 states), proving in exact integer arithmetic that the three-branch transcription of Spline.integrate equals the area under the clamped function, additivity, antisymmetry and constancy outside; because the cubic interpolating spline of polynomial data IS that polynomial, each case has an exact expectation and is replayed into the real SplineSpecificYield (uniform / non-uniform knot subsets, two abscissa scales, 1e-9); random real knot sets are recorded in fixed point and judged by TLC (through knots, constant outside, additive, antisymmetric, Simpson panels = area under the evaluated function).",
         TB + "For non-polynomial knot values 'equals the area' is decided at about 1e-4 relative resolution (fixed point), not 1e-9.", TECH, "4/C14"),
 "C15": ("On a log2 lattice (K = 2^e, levels at integral exponents) T - Tmin = A + B/ln 2 with A, B exact rationals computed segment by segment in Hydraulics.tla; TLC enumerates knot sets, exponent vectors (up to 14 binary orders) and levels, checks floor and monotonicity of both parts, and each case is replayed into the real SplineTransmissivity (value 1e-6 relative, scalar = array bit for bit, floor at and below the lowest knot, continuity at knots, monotone); random real parameters over 8 decades judged by TLC for monotonicity, floor and scalar/array agreement.",
         TB + "Accuracy of QUADPACK for arbitrary real knots is not decided beyond the lattice; relations (floor, monotone, scalar/array) are.", TECH, "4/C15"),
 "C17": ("TLC enumerates polynomial specific yields x knot ranges x increasing level grids (inside, straddling and beyond the knots) with exact cumulative integrals (DifferencesAreIntegrals, MonotoneIfNonNegative as invariants of Hydraulics.tla); each is replayed into the real compute_rise_curve (differences = integrals at 1e-9, mean as requested, monotone when Sy >= 0); random spline / PEATCLSM parameters: refinement invariance and monotonicity judged by TLC in fixed point; CLI: `simulate rise` (table and --observations) on Hydro.tla datasets with polynomial parameter files, judged by TraceSim.tla (levels = the measured curve's, ascending, in mm; measured = view; differences = exact integrals; equal means; dataset unchanged).",
         TB + "CLI-level integrals at 0.01 mm fixed-point resolution (32-bit TLC integers).", TECH, "4/C17"),
 "C18": ("On TLC's (polynomial, knots, grid) cases the real compute_recession_curve is replayed in the two exactly solvable regimes (curvature 0; T = T_min below the lowest transmissivity knot): dt = -(integral of Sy)/(ET + curvature x T) at 1e-7, mean as requested, grid reversal; random spline / PEATCLSM parameters: refinement, reversal and time-increases-downward judged by TLC; CLI: `simulate recession` on Hydro.tla datasets with time-varying ET, curvature 0 and 250, judged by TraceSim.tla: levels in mm from highest to lowest, measured = view / 86400, and -dW/dt recovered per level pair from the two simulated curves = 24 x time-average ET over all steps of the member recession intervals + curvature x T_min.",
         TB + "With level-dependent T the value of each cell integral is not decided (no closed form in rationals) -- only its relations. The ET pattern makes both readings of 'time steps of an interval' (with / without the step at the last sample) give the same average.", TECH, "4/C18"),
 "C19": ("Pest.tla states the structure of template / instruction / control files as a function of the shape and the relation between the artefacts; TLC checks the contract's self-consistency on all shapes; for Hydro.tla datasets x both parameterisations x random knot counts and values the six files and the two `simulate --observations` outputs are generated through the CLI, parsed by a plain parser and judged by TracePest.tla: declared counts = lines, parameter names = placeholders (case-folded), k-th observation = k-th instruction = k-th measured value bit for bit, one output line per instruction after each marker, value text within the instruction's columns, template filled with the original values = the original file; values of both signs and twelve magnitudes go through the real printing path for the width clause.",
         TB + "One open known finding (KNOWN_FINDINGS.json: C19-ins-width-minimal-text-23-24). PEST itself is not installed: the file grammar is taken from the generated files and the PEST manual's conventions.", "TLA+ trace validation of generated artefacts (TLC judges the cross-file relation) + exhaustive shape model", "4/C19"),
 "C20": ("TLC explores Spowtd.tla exhaustively (every history of the five steps with two argument values each, read-only commands, doomed attempts, Fail and Kill at every abstract write index) checking Atomic (action property), NoMixture, Rerunnable, Confluent and termination of every started step, and emits every edge; the harness replays EVERY edge against the real CLI on a small Hydro.tla dataset: one canonical logical dump per abstract state, reproduced byte for byte by every history reaching it; faults (OperationalError) and kills (SIGKILL in a subprocess, hot journal) injected at the first / middle / last write and after the last write (thorough: every statement and every executemany row on a subset); after each the dump must equal the previous content and the step must re-run to the complete result; statement streams judged by TraceTxn.tla.",
         TB + "`load` is outside the property (its executescript commits the schema first). Write points are those visible to Python's sqlite3 layer (statements and executemany rows), not pager-level I/O.", "TLA+ model checking (TLC) of the command/transaction state machine + replay of every graph edge with fault and crash injection + trace validation of SQL statement streams", "4/C20"),
}

NOT_APPLICABLE = {
 "C16": "fidelity of real-valued formulas (normal CDF, non-integer powers) to a publication and an R script that cannot run here; TLC has no reals, no lattice makes them rational (DESIGN.md section 5)",
}

ENGINES = [
 {"name": "tlc", "path": "spec/", "kind_free_text": "explicit TLA+ specification family checked by TLC 1.8 (exhaustive small-scope exploration, instance emission, trace validation)"},
 {"name": "harness", "path": "harness/", "kind_free_text": "Python conformance harness: presents TLC-enumerated instances to the real code (functions, in-memory API, CLI entry point) and records real executions as traces for TLC"},
]


def main():
    checks = []
    for pid in sorted(CHECKS):
        text, note, tech, ref = CHECKS[pid]
        checks.append({
            "property_id": pid, "quick_cmd": "bin/check %s --tier quick" % pid,
            "thorough_cmd": "bin/check %s --tier thorough" % pid, "evidence_file": "evidence/%s.json" % pid,
            "replay_cmd_template": "bin/check %s --replay {path}" % pid, "engine": "tlc",
            "level_claimed": {"category": "model_checking", "text": text, "design_ref": ref},
            "level_note": note, "technique": tech})
    na = [{"property_id": k, "reason": v} for k, v in sorted(NOT_APPLICABLE.items())]
    for i in range(1, 21):
        p = "C%02d" % i
        if p not in CHECKS and p not in NOT_APPLICABLE:
            na.append({"property_id": p, "reason": "check under construction in this round (planned per DESIGN.md section 4); not yet claimed"})
    for e in ENGINES:
        e["serves_properties"] = sorted(CHECKS)
    m = {
        "version": 1,
        "setup_cmd": "cd /verif/spec && for f in *.tla; do tla-sany $f >/dev/null || exit 1; done; cd /verif && /venv/bin/python -m compileall -q harness >/dev/null && mkdir -p work evidence replays",
        "hooks": {"guard": "SPOWTD_VERIF",
                  "enable": "no source hooks: observation is through public returns, committed tables, instrumented arguments and a sqlite3 connection factory installed by the harness process",
                  "baseline_off_cmd": "cd /repo && /venv/bin/python -m pytest -ra -q -p no:cacheprovider --timeout=900 --continue-on-collection-errors",
                  "source_commits": [], "add_only": True},
        "engines": ENGINES, "checks": checks, "not_applicable": sorted(na, key=lambda x: x["property_id"]),
        "notes": "checks are registered as they are built; see DESIGN.md for which seeded changes each check detects"}
    with open(os.path.join(VERIF, "MANIFEST.json"), "w") as f:
        json.dump(m, f, indent=1)


if __name__ == "__main__":
    main()
