#!/bin/sh
# run every registered quick (or thorough) check; print one line each
TIER=${1:-quick}
cd "$(dirname "$0")/.."
LIST=${2:-"C01 C02 C03 C04 C05 C06 C07 C08 C09 C10 C11 C12 C13 C14 C15 C17 C18 C19 C20"}
for c in $LIST; do
  s=$(date +%s)
  out=$(bin/check $c --tier $TIER 2>&1); rc=$?
  e=$(date +%s)
  echo "$c rc=$rc $((e-s))s $(echo "$out" | grep -c '^VIOLATION') violations; $(echo "$out" | tail -1 | cut -c1-150)"
done
